// Package simos is the simulated slice of the OS the server touches besides the
// network: the configuration file and SIGHUP delivery.
package simos

import (
	"fmt"
	"io/fs"
	"os"
	"syscall"

	"github.com/Jigsaw-Code/outline-ss-server/verifrt/simrt"
)

// OS is the per-run state.
type OS struct {
	Files   map[string][]byte
	FileErr map[string]error
	Reads   int
	subs    []sub
	Sent    int
	Dropped int // signals coalesced because the channel buffer was full
}

type sub struct {
	c    chan<- os.Signal
	sigs []os.Signal
}

const osKey = "simos.os"

//go:norace
func Cur() *OS {
	if simrt.S == nil {
		return nil
	}
	o, _ := simrt.S.Values[osKey].(*OS)
	if o == nil {
		o = &OS{Files: map[string][]byte{}, FileErr: map[string]error{}}
		simrt.S.Values[osKey] = o
	}
	return o
}

// ReadFile replaces os.ReadFile.
//
//go:norace
func ReadFile(name string) ([]byte, error) {
	o := Cur()
	if o == nil {
		return os.ReadFile(name)
	}
	simrt.Yield()
	o.Reads++
	if err := o.FileErr[name]; err != nil {
		simrt.Fault("file_read_error")
		return nil, &fs.PathError{Op: "open", Path: name, Err: err}
	}
	b, ok := o.Files[name]
	if !ok {
		return nil, &fs.PathError{Op: "open", Path: name, Err: syscall.ENOENT}
	}
	return append([]byte(nil), b...), nil
}

// Notify replaces signal.Notify.
//
//go:norace
func Notify(c chan<- os.Signal, sigs ...os.Signal) {
	o := Cur()
	if o == nil {
		return
	}
	o.subs = append(o.subs, sub{c, sigs})
}

// Stop replaces signal.Stop.
//
//go:norace
func Stop(c chan<- os.Signal) {
	o := Cur()
	if o == nil {
		return
	}
	var out []sub
	for _, s := range o.subs {
		if s.c != c {
			out = append(out, s)
		}
	}
	o.subs = out
}

// Kill delivers sig the way the runtime does: a non-blocking send into every
// subscribed channel (so back-to-back signals coalesce in a 1-buffered one).
// Must be called from a task.
//
//go:norace
func Kill(sig os.Signal) {
	o := Cur()
	for _, s := range o.subs {
		match := len(s.sigs) == 0
		for _, x := range s.sigs {
			if x == sig {
				match = true
			}
		}
		if !match {
			continue
		}
		t := simrt.Pre()
		select {
		case s.c <- sig:
			o.Sent++
		default:
			o.Dropped++
		}
		simrt.Post(t)
	}
}

// ProcessExit is the panic value with which a task ends that called os.Exit or
// log.Fatal*: inside the simulation the process "dies" as an uncaught panic of
// that task (the run records it; whether that breaks a property is the
// scenario's business), not as the death of the worker process.
type ProcessExit struct {
	Code int
	Msg  string
}

func (e ProcessExit) Error() string {
	return fmt.Sprintf("the code under test ended the process: exit status %d %s", e.Code, e.Msg)
}

// Exit replaces os.Exit.
func Exit(code int) {
	simrt.Probe("process_exit_called")
	panic(ProcessExit{Code: code})
}

// Fatal, Fatalf, Fatalln replace the log package's functions of those names.
func Fatal(v ...any) {
	simrt.Probe("process_exit_called")
	panic(ProcessExit{Code: 1, Msg: "(log.Fatal: " + fmt.Sprint(v...) + ")"})
}

func Fatalf(format string, v ...any) {
	simrt.Probe("process_exit_called")
	panic(ProcessExit{Code: 1, Msg: "(log.Fatalf: " + fmt.Sprintf(format, v...) + ")"})
}

func Fatalln(v ...any) {
	simrt.Probe("process_exit_called")
	panic(ProcessExit{Code: 1, Msg: "(log.Fatalln: " + fmt.Sprint(v...) + ")"})
}
