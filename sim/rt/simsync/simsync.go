// Package simsync provides scheduler-aware replacements for the sync
// primitives. Instrumented repository code imports it under the name "sync".
// Every acquisition is a scheduling point; a task that cannot proceed is blocked
// in the simulator with a recorded reason (which lock, who holds it). Under
// -race the types emit the happens-before edges the real primitives emit.
package simsync

import (
	"fmt"
	"sync"
	"unsafe"

	"github.com/Jigsaw-Code/outline-ss-server/verifrt/simrt"
)

type (
	Map    = sync.Map
	Locker = sync.Locker
)

// Pool is a simulated sync.Pool. The real one is a source of nondeterminism
// (per-P caches, items dropped by the garbage collector) and, being usually a
// package-level variable, carries state from one run of a worker process into
// the next. This one is emptied at the start of every run; Get returns one of
// the pooled items or none (the real pool may have dropped any of them), as
// drawn from the schedule tape, so a run replays exactly. Draw 0 is "the item
// put most recently".
type Pool struct {
	New   func() any
	items []any
	sim   *simrt.Sim
	hb    byte
}

//go:norace
func (p *Pool) Get() any {
	if inSim() {
		if p.sim != simrt.S {
			p.items, p.sim = nil, simrt.S
		}
		if n := len(p.items); n > 0 {
			if i := simrt.S.Sched.Draw(n + 1); i < n {
				j := n - 1 - i
				x := p.items[j]
				p.items = append(p.items[:j], p.items[j+1:]...)
				simrt.RaceAcquire(unsafe.Pointer(&p.hb))
				simrt.Probe("pool_item_reused")
				return x
			}
		}
	}
	if p.New != nil {
		return p.New()
	}
	return nil
}

//go:norace
func (p *Pool) Put(x any) {
	if x == nil || !inSim() {
		return
	}
	if p.sim != simrt.S {
		p.items, p.sim = nil, simrt.S
	}
	simrt.RaceReleaseMerge(unsafe.Pointer(&p.hb))
	p.items = append(p.items, x)
}

// real is used when no simulation is active (package init, post-run code).
func inSim() bool { return simrt.S != nil && simrt.Cur() != nil }

// Mutex is a simulated sync.Mutex.
type Mutex struct {
	held    bool
	holder  *simrt.Task
	waiters []*simrt.Task
	real    sync.Mutex
}

func (m *Mutex) SimHolder() *simrt.Task { return m.holder }
func (m *Mutex) SimDescribe() string {
	if m.holder != nil {
		return fmt.Sprintf("Mutex@%p held by task %d", m, m.holder.ID)
	}
	return fmt.Sprintf("Mutex@%p", m)
}

//go:norace
func (m *Mutex) Lock() {
	if !inSim() {
		m.real.Lock()
		return
	}
	simrt.Yield()
	t := simrt.Cur()
	for m.held {
		m.waiters = append(m.waiters, t)
		simrt.Block("Mutex.Lock", m)
	}
	m.held = true
	m.holder = t
	simrt.RaceAcquire(unsafe.Pointer(m))
}

//go:norace
func (m *Mutex) TryLock() bool {
	if !inSim() {
		return m.real.TryLock()
	}
	simrt.Yield()
	if m.held {
		return false
	}
	m.held = true
	m.holder = simrt.Cur()
	simrt.RaceAcquire(unsafe.Pointer(m))
	return true
}

//go:norace
func (m *Mutex) Unlock() {
	if !inSim() {
		if m.held { // locked inside the simulation, unlocked during teardown
			m.held = false
			return
		}
		m.real.Unlock()
		return
	}
	if !m.held {
		panic("sync: unlock of unlocked mutex")
	}
	simrt.RaceRelease(unsafe.Pointer(m))
	m.held = false
	m.holder = nil
	w := m.waiters
	m.waiters = nil
	for _, t := range w {
		simrt.Unblock(t)
	}
}

// RWMutex is a simulated sync.RWMutex (writer-preferring like the real one: a
// pending writer blocks new readers).
type RWMutex struct {
	writer   *simrt.Task
	readers  int
	wwaiting int
	waiters  []*simrt.Task
	real     sync.RWMutex
	rsync    byte // separate address for reader release edges
}

func (m *RWMutex) SimHolder() *simrt.Task { return m.writer }
func (m *RWMutex) SimDescribe() string {
	if m.writer != nil {
		return fmt.Sprintf("RWMutex@%p write-held by task %d", m, m.writer.ID)
	}
	return fmt.Sprintf("RWMutex@%p readers=%d", m, m.readers)
}

//go:norace
func (m *RWMutex) wakeAll() {
	w := m.waiters
	m.waiters = nil
	for _, t := range w {
		simrt.Unblock(t)
	}
}

//go:norace
func (m *RWMutex) Lock() {
	if !inSim() {
		m.real.Lock()
		return
	}
	simrt.Yield()
	t := simrt.Cur()
	m.wwaiting++
	for m.writer != nil || m.readers > 0 {
		m.waiters = append(m.waiters, t)
		simrt.Block("RWMutex.Lock", m)
	}
	m.wwaiting--
	m.writer = t
	simrt.RaceAcquire(unsafe.Pointer(m))
	simrt.RaceAcquire(unsafe.Pointer(&m.rsync))
}

//go:norace
func (m *RWMutex) Unlock() {
	if !inSim() {
		if m.writer != nil {
			m.writer = nil
			return
		}
		m.real.Unlock()
		return
	}
	if m.writer == nil {
		panic("sync: Unlock of unlocked RWMutex")
	}
	simrt.RaceRelease(unsafe.Pointer(m))
	m.writer = nil
	m.wakeAll()
}

//go:norace
func (m *RWMutex) RLock() {
	if !inSim() {
		m.real.RLock()
		return
	}
	simrt.Yield()
	t := simrt.Cur()
	for m.writer != nil || m.wwaiting > 0 {
		m.waiters = append(m.waiters, t)
		simrt.Block("RWMutex.RLock", m)
	}
	m.readers++
	simrt.RaceAcquire(unsafe.Pointer(m))
}

//go:norace
func (m *RWMutex) RUnlock() {
	if !inSim() {
		if m.readers > 0 {
			m.readers--
			return
		}
		m.real.RUnlock()
		return
	}
	if m.readers <= 0 {
		panic("sync: RUnlock of unlocked RWMutex")
	}
	simrt.RaceReleaseMerge(unsafe.Pointer(&m.rsync))
	m.readers--
	if m.readers == 0 {
		m.wakeAll()
	}
}

func (m *RWMutex) RLocker() sync.Locker { return (*rlocker)(m) }

type rlocker RWMutex

func (r *rlocker) Lock()   { (*RWMutex)(r).RLock() }
func (r *rlocker) Unlock() { (*RWMutex)(r).RUnlock() }

// WaitGroup is a simulated sync.WaitGroup.
type WaitGroup struct {
	n       int
	waiters []*simrt.Task
	real    sync.WaitGroup
}

func (wg *WaitGroup) SimDescribe() string { return fmt.Sprintf("WaitGroup@%p count=%d", wg, wg.n) }

//go:norace
func (wg *WaitGroup) Add(d int) {
	if !inSim() {
		if wg.n > 0 { // counted inside the simulation, released during teardown
			wg.n += d
			return
		}
		wg.real.Add(d)
		return
	}
	if d < 0 {
		simrt.RaceReleaseMerge(unsafe.Pointer(wg))
	}
	wg.n += d
	if wg.n < 0 {
		panic("sync: negative WaitGroup counter")
	}
	if wg.n == 0 {
		w := wg.waiters
		wg.waiters = nil
		for _, t := range w {
			simrt.Unblock(t)
		}
	}
}

func (wg *WaitGroup) Done() { wg.Add(-1) }

//go:norace
func (wg *WaitGroup) Go(f func()) {
	wg.Add(1)
	simrt.Go(func() {
		defer wg.Done()
		f()
	})
}

//go:norace
func (wg *WaitGroup) Wait() {
	if !inSim() {
		wg.real.Wait()
		return
	}
	simrt.Yield()
	t := simrt.Cur()
	for wg.n > 0 {
		wg.waiters = append(wg.waiters, t)
		simrt.Block("WaitGroup.Wait", wg)
	}
	simrt.RaceAcquire(unsafe.Pointer(wg))
}

// Once is a simulated sync.Once.
type Once struct {
	done    bool
	running *simrt.Task
	waiters []*simrt.Task
	real    sync.Once
}

func (o *Once) SimHolder() *simrt.Task { return o.running }
func (o *Once) SimDescribe() string    { return fmt.Sprintf("Once@%p", o) }

//go:norace
func (o *Once) Do(f func()) {
	if !inSim() {
		if o.done {
			return
		}
		o.real.Do(f)
		return
	}
	simrt.Yield()
	t := simrt.Cur()
	for o.running != nil && !o.done {
		o.waiters = append(o.waiters, t)
		simrt.Block("Once.Do", o)
	}
	if o.done {
		simrt.RaceAcquire(unsafe.Pointer(o))
		return
	}
	o.running = t
	defer func() {
		simrt.RaceRelease(unsafe.Pointer(o))
		o.done = true
		o.running = nil
		w := o.waiters
		o.waiters = nil
		for _, x := range w {
			simrt.Unblock(x)
		}
	}()
	f()
}

// Cond is a simulated sync.Cond.
type Cond struct {
	L       sync.Locker
	waiters []*simrt.Task
}

func NewCond(l sync.Locker) *Cond { return &Cond{L: l} }

//go:norace
func (c *Cond) Wait() {
	t := simrt.Cur()
	c.waiters = append(c.waiters, t)
	c.L.Unlock()
	woken := false
	for !woken {
		simrt.Block("Cond.Wait", c)
		woken = true
		for _, w := range c.waiters {
			if w == t {
				woken = false
			}
		}
	}
	c.L.Lock()
}

//go:norace
func (c *Cond) Signal() {
	if len(c.waiters) > 0 {
		t := c.waiters[0]
		c.waiters = c.waiters[1:]
		simrt.Unblock(t)
	}
}

//go:norace
func (c *Cond) Broadcast() {
	w := c.waiters
	c.waiters = nil
	for _, t := range w {
		simrt.Unblock(t)
	}
}

func OnceFunc(f func()) func() {
	var o Once
	return func() { o.Do(f) }
}
