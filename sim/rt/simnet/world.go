// Package simnet is the simulated TCP/UDP stack, resolver and ground-truth
// ledger. Instrumented repository code reaches it through the substituted
// stdlib/SDK API names (ListenTCP, ListenPacket, ResolveUDPAddr, TCPDialer);
// harness tasks use the World API directly. All of it runs under the simrt
// scheduler: blocking calls park in the simulator, never natively.
package simnet

import (
	"errors"
	"fmt"
	"net"
	"os"
	"strconv"
	"syscall"
	"time"
	"unsafe"

	"github.com/Jigsaw-Code/outline-ss-server/verifrt/simrt"
)

// World is the per-run network.
type World struct {
	tcpL map[string]*TCPListener // bound TCP listeners by canonical "ip:port"
	udpS map[string]*UDPConn     // bound UDP sockets

	nextPort int
	nextConn int
	nextDg   int
	// EvSeq is a run-global counter of socket events (finer than scheduler steps).
	EvSeq int

	// HostIP4/HostIP6 are the proxy host's outbound source addresses.
	HostIP4, HostIP6 net.IP

	// Resolver script: name -> successive answers (last one repeats).
	Hosts map[string][][]net.IP
	// EOFWithData: permille of "last read of a stream returns its bytes together
	// with io.EOF" on the ends held by the code under test
	EOFWithData int
	// LookupDelay: virtual time a name lookup takes (nil: none)
	LookupDelay func(host string) time.Duration
	// ResolveErr names fail to resolve.
	lookups map[string]int

	// Fault knobs (permille unless stated), drawn from the fault tape.
	ShortRead        int // TCP read returns fewer bytes than available
	AcceptErr        int // AcceptTCP returns a transient error
	UDPLoss          int
	UDPDup           int
	UDPDelay         int // datagram held back for a drawn time (reordering)
	UDPWriteErr      int // proxy-side WriteTo fails
	UDPWriteErrBound int // WriteTo fails on server sockets bound to an explicit address (the listening socket), not on outbound ones
	UDPSockErr       int // outbound socket creation fails
	UDPReadErr       int // transient ReadFrom error
	Window           int // TCP receive window in bytes
	ListenFail       func(network, addr string) error
	ConnectFail      func(ip net.IP, port int) error
	FaultOnlyHost    bool // apply UDP faults only to sockets bound without explicit address (the proxy's)

	// Ledger.
	Conns  []*ConnRec
	Dials  []*DialRec
	Dgrams []*DgramRec
	Socks  []*UDPConn
	Lsns   []*TCPListener
	// WriteFails lists outbound datagrams whose WriteTo failed (UDPWriteErr);
	// SockAttempts lists, in order, whether each creation of an unbound (outbound)
	// UDP socket succeeded.
	WriteFails   []*DgramRec
	SockAttempts []bool
}

const worldKey = "simnet.world"

// NewWorld creates and installs the world of the current run.
func NewWorld() *World {
	w := &World{
		tcpL: map[string]*TCPListener{}, udpS: map[string]*UDPConn{},
		nextPort: 40000, Hosts: map[string][][]net.IP{}, lookups: map[string]int{},
		HostIP4: net.IPv4(198, 51, 100, 77).To4(), HostIP6: net.ParseIP("2001:db8:77::77"),
		Window: 64 * 1024,
	}
	simrt.S.Values[worldKey] = w
	return w
}

// W returns the current run's world.
//
//go:norace
func W() *World {
	if simrt.S == nil {
		panic("simnet: network API used outside a simulation run")
	}
	w, _ := simrt.S.Values[worldKey].(*World)
	if w == nil {
		w = NewWorld()
	}
	return w
}

// ---- errors ----

type timeoutError struct{}

func (timeoutError) Error() string   { return "i/o timeout" }
func (timeoutError) Timeout() bool   { return true }
func (timeoutError) Temporary() bool { return true }
func (timeoutError) Is(err error) bool {
	return err == os.ErrDeadlineExceeded
}

func opErr(op, netw string, addr net.Addr, err error) error {
	return &net.OpError{Op: op, Net: netw, Addr: addr, Err: err}
}

var errTimeout error = timeoutError{}

// IsTimeout reports whether err is a simulated deadline error.
func IsTimeout(err error) bool {
	var ne net.Error
	return errors.As(err, &ne) && ne.Timeout()
}

// ---- addresses ----

func isWild(ip net.IP) bool { return len(ip) == 0 || ip.IsUnspecified() }

func canonIP(ip net.IP) string {
	if len(ip) == 0 {
		return "*"
	}
	if v4 := ip.To4(); v4 != nil {
		if v4.Equal(net.IPv4zero) {
			return "0.0.0.0"
		}
		return v4.String()
	}
	return ip.String()
}

func key(ip net.IP, zone string, port int) string {
	s := canonIP(ip)
	if zone != "" {
		s += "%" + zone
	}
	return s + ":" + strconv.Itoa(port)
}

// bindConflict reports whether binding (ip,port) conflicts with an existing
// binding (eip, same port): same address, or either is a wildcard covering the
// other's family ("" and [::] are dual-stack; 0.0.0.0 covers IPv4 only).
func bindConflict(ip, eip net.IP) bool {
	if canonIP(ip) == canonIP(eip) {
		return true
	}
	cover := func(w, x net.IP) bool {
		if !isWild(w) {
			return false
		}
		if len(w) == 0 || w.To4() == nil { // "" or [::]: dual stack
			return true
		}
		// 0.0.0.0 covers IPv4 addresses and conflicts with dual-stack wildcards
		return len(x) == 0 || x.To4() != nil || x.IsUnspecified()
	}
	return cover(ip, eip) || cover(eip, ip)
}

// matchBound finds the binding that receives traffic for (ip,port).
func matchBound[T any](m map[string]T, ip net.IP, zone string, port int) (T, bool) {
	if v, ok := m[key(ip, zone, port)]; ok {
		return v, true
	}
	if v, ok := m[key(ip, "", port)]; ok && zone != "" {
		return v, true
	}
	if v, ok := m[key(nil, "", port)]; ok {
		return v, true
	}
	if v, ok := m[key(net.IPv6unspecified, "", port)]; ok {
		return v, true
	}
	if ip.To4() != nil {
		if v, ok := m[key(net.IPv4zero, "", port)]; ok {
			return v, true
		}
	}
	var z T
	return z, false
}

func (w *World) ephemeral() int {
	w.nextPort++
	return w.nextPort
}

func (w *World) hostIPFor(dst net.IP) net.IP {
	if dst.To4() != nil {
		return w.HostIP4
	}
	return w.HostIP6
}

// ---- resolver ----

// Script sets the successive answers for a host name.
func (w *World) Script(host string, answers ...[]net.IP) { w.Hosts[host] = answers }

// Lookup resolves a host name per the script.
//
//go:norace
func (w *World) Lookup(host string) ([]net.IP, error) {
	simrt.Yield()
	if ip := net.ParseIP(host); ip != nil {
		return []net.IP{ip}, nil
	}
	if w.LookupDelay != nil {
		if d := w.LookupDelay(host); d > 0 {
			simrt.Fault("slow_name_lookup")
			simrt.Sleep(d)
		}
	}
	ans, ok := w.Hosts[host]
	n := w.lookups[host]
	w.lookups[host] = n + 1
	simrt.Log("lookup", int64(len(host)), int64(n))
	if !ok || len(ans) == 0 {
		return nil, &net.DNSError{Err: "no such host", Name: host, IsNotFound: true}
	}
	if n >= len(ans) {
		n = len(ans) - 1
	}
	if len(ans[n]) == 0 {
		return nil, &net.DNSError{Err: "no such host", Name: host, IsNotFound: true}
	}
	return ans[n], nil
}

func splitHostPort(network, address string) (host string, port int, err error) {
	h, p, err := net.SplitHostPort(address)
	if err != nil {
		return "", 0, &net.AddrError{Err: err.Error(), Addr: address}
	}
	pn, err := strconv.Atoi(p)
	if err != nil || pn < 0 || pn > 65535 {
		if p == "" {
			return h, 0, nil
		}
		return "", 0, &net.AddrError{Err: "invalid port", Addr: address}
	}
	return h, pn, nil
}

func splitZone(h string) (string, string) {
	for i := 0; i < len(h); i++ {
		if h[i] == '%' {
			return h[:i], h[i+1:]
		}
	}
	return h, ""
}

// resolveOne mirrors net.Resolve{UDP,TCP}Addr: literal addresses are parsed,
// names go to the scripted resolver, the first IPv4 answer is preferred.
func resolveOne(network, address string) (net.IP, string, int, error) {
	host, port, err := splitHostPort(network, address)
	if err != nil {
		return nil, "", 0, err
	}
	if host == "" {
		return nil, "", port, nil
	}
	h, zone := splitZone(host)
	if ip := net.ParseIP(h); ip != nil {
		if v4 := ip.To4(); v4 != nil {
			ip = v4
		}
		return ip, zone, port, nil
	}
	ips, err := W().Lookup(host)
	if err != nil {
		return nil, "", 0, err
	}
	want6 := len(network) > 0 && network[len(network)-1] == '6'
	want4 := len(network) > 0 && network[len(network)-1] == '4'
	var pick net.IP
	for _, ip := range ips {
		is4 := ip.To4() != nil
		if want4 && !is4 || want6 && is4 {
			continue
		}
		if pick == nil {
			pick = ip
		}
		if is4 && !want6 {
			pick = ip
			break
		}
	}
	if pick == nil {
		return nil, "", 0, &net.AddrError{Err: "no suitable address found", Addr: host}
	}
	if v4 := pick.To4(); v4 != nil {
		pick = v4
	}
	return pick, "", port, nil
}

// ResolveUDPAddr replaces net.ResolveUDPAddr.
func ResolveUDPAddr(network, address string) (*net.UDPAddr, error) {
	switch network {
	case "udp", "udp4", "udp6", "":
	default:
		return nil, net.UnknownNetworkError(network)
	}
	ip, zone, port, err := resolveOne(network, address)
	if err != nil {
		return nil, err
	}
	return &net.UDPAddr{IP: ip, Port: port, Zone: zone}, nil
}

// ResolveTCPAddr replaces net.ResolveTCPAddr.
func ResolveTCPAddr(network, address string) (*net.TCPAddr, error) {
	switch network {
	case "tcp", "tcp4", "tcp6", "":
	default:
		return nil, net.UnknownNetworkError(network)
	}
	ip, zone, port, err := resolveOne(network, address)
	if err != nil {
		return nil, err
	}
	return &net.TCPAddr{IP: ip, Port: port, Zone: zone}, nil
}

func ResolveIPAddr(network, address string) (*net.IPAddr, error) {
	ips, err := W().Lookup(address)
	if err != nil {
		return nil, err
	}
	return &net.IPAddr{IP: ips[0]}, nil
}

func LookupIP(host string) ([]net.IP, error) { return W().Lookup(host) }

func LookupHost(host string) ([]string, error) {
	ips, err := W().Lookup(host)
	if err != nil {
		return nil, err
	}
	var out []string
	for _, ip := range ips {
		out = append(out, ip.String())
	}
	return out, nil
}

// ---- deadlines ----

type deadline struct {
	t  time.Time
	ev simrt.Event
}

//go:norace
func (d *deadline) set(t time.Time, wake func()) {
	d.ev.Cancel()
	d.t = t
	if !t.IsZero() {
		d.ev = simrt.At(t, wake)
	}
}

//go:norace
func (d *deadline) expired() bool {
	return !d.t.IsZero() && !simrt.NowNoTick().Before(d.t)
}

func wakeAll(ts *[]*simrt.Task) {
	l := *ts
	*ts = nil
	for _, t := range l {
		simrt.Unblock(t)
	}
}

// ioSync mirrors package syscall's global ioSync: under -race syscall.Write
// release-merges into it and a successful syscall.Read acquires it. Only the
// stream path (Read/Write) carries the edge; recvfrom/sendto (UDP) do not.
var ioSync byte

func raceWrite() { simrt.RaceReleaseMerge(unsafe.Pointer(&ioSync)) }
func raceRead()  { simrt.RaceAcquire(unsafe.Pointer(&ioSync)) }

var _ = fmt.Sprintf
var errRefused = syscall.ECONNREFUSED
