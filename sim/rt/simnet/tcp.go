package simnet

import (
	"context"
	"fmt"
	"io"
	"net"
	"syscall"
	"time"

	"github.com/Jigsaw-Code/outline-sdk/transport"
	"github.com/Jigsaw-Code/outline-ss-server/verifrt/simrt"
)

// ConnRec is the ground-truth record of one TCP connection (two endpoints:
// index 0 = the side that connected, 1 = the side that accepted).
type ConnRec struct {
	ID       int
	Ends     [2]*TCPConn
	Opened   time.Duration
	Accepted bool
}

// EndEvent is something observable that happened at an endpoint.
type EndEvent struct {
	At   time.Duration
	Seq  int
	Kind string // "fin-sent","rst-sent","closed","fin-recv","rst-recv","closeread","closewrite"
}

// TCPConn is one endpoint of a simulated TCP connection.
type TCPConn struct {
	linger0 bool // SetLinger(0): Close is abortive
	w       *World
	Rec     *ConnRec
	side    int
	peer    *TCPConn
	local   *net.TCPAddr
	remote  *net.TCPAddr

	rbuf        []byte
	rfin        bool
	rst         bool
	closed      bool
	closedRead  bool
	closedWrite bool
	dropped     bool // data arrived after CloseRead and was dropped
	rdl, wdl    deadline
	readers     []*simrt.Task
	writers     []*simrt.Task

	// Ledger: every byte this endpoint wrote / read, and endpoint events.
	Wrote   []byte
	SrvEnd  bool // this end was dialed by the code under test (through a dialer that the API lets an embedder replace)
	NRead   int64
	Events  []EndEvent
	KeepLog bool
}

var _ transport.StreamConn = (*TCPConn)(nil)

// connErr mirrors net.OpError for an established connection: Source is the
// local address and Addr the remote one ("read tcp local->remote: ...").
func (c *TCPConn) connErr(op string, err error) error {
	return &net.OpError{Op: op, Net: "tcp", Source: c.local, Addr: c.remote, Err: err}
}

func (c *TCPConn) SimDescribe() string {
	return fmt.Sprintf("tcp conn#%d side %d %v<->%v", c.Rec.ID, c.side, c.local, c.remote)
}

//go:norace
func (c *TCPConn) ev(kind string) {
	c.Events = append(c.Events, EndEvent{simrt.Elapsed(), simrt.Steps(), kind})
	simrt.Log("tcp:"+kind, int64(c.Rec.ID), int64(c.side))
}

// Has reports whether the endpoint saw an event of the kind, and when.
func (c *TCPConn) Has(kind string) (time.Duration, bool) {
	for _, e := range c.Events {
		if e.Kind == kind {
			return e.At, true
		}
	}
	return 0, false
}

func (c *TCPConn) Peer() *TCPConn { return c.peer }
func (c *TCPConn) LocalAddr() net.Addr {
	if c == nil {
		return nil
	}
	return c.local
}
func (c *TCPConn) RemoteAddr() net.Addr {
	if c == nil {
		return nil
	}
	return c.remote
}
func (c *TCPConn) Unread() int { return len(c.rbuf) }

//go:norace
func (c *TCPConn) Read(p []byte) (int, error) {
	if c == nil {
		return 0, syscall.EINVAL
	}
	simrt.Yield()
	for {
		if c.closed {
			return 0, c.connErr("read", net.ErrClosed)
		}
		if len(p) == 0 {
			return 0, nil
		}
		// Go checks the deadline before it attempts the read (poll.prepareRead): an
		// expired deadline wins over buffered data, EOF and RST.
		if c.rdl.expired() {
			return 0, c.connErr("read", errTimeout)
		}
		if c.closedRead {
			return 0, io.EOF
		}
		if c.rst {
			return 0, c.connErr("read", syscall.ECONNRESET)
		}
		if len(c.rbuf) > 0 {
			n := len(c.rbuf)
			if n > len(p) {
				n = len(p)
			}
			if n > 1 && c.w.ShortRead > 0 && simrt.S.Fault.Permille(c.w.ShortRead) {
				n = 1 + simrt.S.Fault.Draw(n-1)
				simrt.Fault("tcp_short_read")
			}
			copy(p, c.rbuf[:n])
			c.rbuf = c.rbuf[n:]
			if len(c.rbuf) == 0 {
				c.rbuf = nil
			}
			c.NRead += int64(n)
			raceRead()
			simrt.Log("tcp:read", int64(c.Rec.ID)*2+int64(c.side), int64(n))
			wakeAll(&c.peer.writers)
			if c.rbuf == nil && c.rfin && c.SrvEnd && c.w.EOFWithData > 0 && simrt.S.Fault.Permille(c.w.EOFWithData) {
				// unusual but legal for an io.Reader (a kernel socket never does it; a
				// framed or in-memory transport installed as the target dialer may): the
				// last bytes and the end of the stream in one call
				simrt.Fault("read_returns_data_with_eof")
				return n, io.EOF
			}
			return n, nil
		}
		if c.rfin {
			return 0, io.EOF
		}
		c.readers = append(c.readers, simrt.Cur())
		simrt.Block("tcp read", c)
	}
}

//go:norace
func (c *TCPConn) Write(p []byte) (int, error) {
	if c == nil {
		return 0, syscall.EINVAL
	}
	simrt.Yield()
	total := 0
	for {
		if c.closed {
			return total, c.connErr("write", net.ErrClosed)
		}
		if c.wdl.expired() { // poll.prepareWrite: the deadline is checked first
			return total, c.connErr("write", errTimeout)
		}
		if c.closedWrite {
			return total, c.connErr("write", syscall.EPIPE)
		}
		if c.rst {
			return total, c.connErr("write", syscall.ECONNRESET)
		}
		if len(p) == 0 {
			return total, nil
		}
		pe := c.peer
		if pe.closed {
			// Data to a fully closed endpoint is answered with RST; this write
			// itself still succeeds, as on a real stack.
			c.Wrote = append(c.Wrote, p...)
			simrt.Account(len(p))
			total += len(p)
			c.gotRST()
			return total, nil
		}
		if pe.closedRead {
			pe.dropped = true
			c.Wrote = append(c.Wrote, p...)
			total += len(p)
			simrt.Log("tcp:write-dropped", int64(c.Rec.ID)*2+int64(c.side), int64(len(p)))
			return total, nil
		}
		space := c.w.Window - len(pe.rbuf)
		if space <= 0 {
			if c.wdl.expired() {
				return total, c.connErr("write", errTimeout)
			}
			c.writers = append(c.writers, simrt.Cur())
			simrt.Block("tcp write (peer window full)", c)
			continue
		}
		n := len(p)
		if n > space {
			n = space
		}
		raceWrite()
		pe.rbuf = append(pe.rbuf, p[:n]...)
		c.Wrote = append(c.Wrote, p[:n]...)
		simrt.Account(n)
		simrt.Log("tcp:write", int64(c.Rec.ID)*2+int64(c.side), int64(n))
		p = p[n:]
		total += n
		wakeAll(&pe.readers)
	}
}

//go:norace
func (c *TCPConn) gotRST() {
	if !c.rst {
		c.rst = true
		c.rbuf = nil
		c.ev("rst-recv")
		wakeAll(&c.readers)
		wakeAll(&c.writers)
	}
}

//go:norace
func (c *TCPConn) gotFIN() {
	if !c.rfin {
		c.rfin = true
		c.ev("fin-recv")
		wakeAll(&c.readers)
	}
}

// ReadFrom mirrors *net.TCPConn, which implements io.ReaderFrom.
func (c *TCPConn) ReadFrom(r io.Reader) (int64, error) {
	return io.Copy(struct{ io.Writer }{c}, r)
}

// WriteTo mirrors *net.TCPConn, which implements io.WriterTo.
func (c *TCPConn) WriteTo(w io.Writer) (int64, error) {
	return io.Copy(w, struct{ io.Reader }{c})
}

//go:norace
func (c *TCPConn) CloseRead() error {
	if c == nil {
		return syscall.EINVAL
	}
	simrt.Yield()
	if c.closed {
		return opErr("close", "tcp", c.local, net.ErrClosed)
	}
	if !c.closedRead {
		c.closedRead = true
		if len(c.rbuf) > 0 {
			c.dropped = true
		}
		c.rbuf = nil
		c.ev("closeread")
		wakeAll(&c.readers)
		wakeAll(&c.peer.writers)
	}
	return nil
}

//go:norace
func (c *TCPConn) CloseWrite() error {
	if c == nil {
		return syscall.EINVAL
	}
	simrt.Yield()
	if c.closed {
		return opErr("close", "tcp", c.local, net.ErrClosed)
	}
	if !c.closedWrite {
		c.closedWrite = true
		c.ev("fin-sent")
		if !c.rst {
			c.peer.gotFIN()
		}
		wakeAll(&c.writers)
	}
	return nil
}

//go:norace
func (c *TCPConn) Close() error {
	if c == nil {
		return syscall.EINVAL
	}
	simrt.Yield()
	if c.closed {
		return opErr("close", "tcp", c.local, net.ErrClosed)
	}
	c.closed = true
	c.rdl.ev.Cancel()
	c.wdl.ev.Cancel()
	if c.linger0 && !c.rst && !c.peer.closed {
		simrt.Fault("abortive_close_linger0")
		c.ev("rst-sent")
		c.peer.gotRST()
	} else if (len(c.rbuf) > 0 || c.dropped) && !c.rst {
		// Unread inbound data at close: the stack answers with RST.
		c.ev("rst-sent")
		c.peer.gotRST()
	} else if !c.closedWrite && !c.rst {
		c.ev("fin-sent")
		c.peer.gotFIN()
	}
	c.ev("closed")
	c.rbuf = nil
	wakeAll(&c.readers)
	wakeAll(&c.writers)
	wakeAll(&c.peer.writers)
	return nil
}

// Abort closes the endpoint with an RST (SO_LINGER 0), harness use.
//
//go:norace
func (c *TCPConn) Abort() {
	simrt.Yield()
	if c.closed {
		return
	}
	c.closed = true
	c.ev("rst-sent")
	c.peer.gotRST()
	c.ev("closed")
	wakeAll(&c.readers)
	wakeAll(&c.writers)
	wakeAll(&c.peer.writers)
}

//go:norace
func (c *TCPConn) SetDeadline(t time.Time) error {
	if c == nil {
		return syscall.EINVAL
	}
	c.SetReadDeadline(t)
	return c.SetWriteDeadline(t)
}

//go:norace
func (c *TCPConn) SetReadDeadline(t time.Time) error {
	if c == nil {
		return syscall.EINVAL
	}
	if c.closed {
		return opErr("set", "tcp", c.local, net.ErrClosed)
	}
	c.rdl.set(t, func() { wakeAll(&c.readers) })
	if c.rdl.expired() {
		wakeAll(&c.readers)
	}
	return nil
}

//go:norace
func (c *TCPConn) SetWriteDeadline(t time.Time) error {
	if c == nil {
		return syscall.EINVAL
	}
	if c.closed {
		return opErr("set", "tcp", c.local, net.ErrClosed)
	}
	c.wdl.set(t, func() { wakeAll(&c.writers) })
	if c.wdl.expired() {
		wakeAll(&c.writers)
	}
	return nil
}

func (c *TCPConn) SetKeepAlive(bool) error                { return nil }
func (c *TCPConn) SetKeepAlivePeriod(time.Duration) error { return nil }
func (c *TCPConn) SetNoDelay(bool) error                  { return nil }

// SetLinger(0) makes Close abortive (SO_LINGER 0): an RST instead of a FIN, and
// whatever the peer application has not read yet is lost (zero-latency model:
// data still queued towards the peer and data queued at the peer are one).
func (c *TCPConn) SetLinger(sec int) error {
	if c != nil {
		c.linger0 = sec == 0
	}
	return nil
}
func (c *TCPConn) SetReadBuffer(int) error  { return nil }
func (c *TCPConn) SetWriteBuffer(int) error { return nil }

// IsClosed reports whether the endpoint was closed by its owner.
func (c *TCPConn) IsClosed() bool { return c.closed }

// ---- listener ----

// TCPListener replaces *net.TCPListener.
type TCPListener struct {
	w       *World
	addr    *net.TCPAddr
	backlog []*TCPConn
	closed  bool
	waiters []*simrt.Task
	Foreign bool // bound by the harness (not by code under test)
	Accepts int
}

func (l *TCPListener) SimDescribe() string { return fmt.Sprintf("tcp listener %v", l.addr) }

// ListenTCP replaces net.ListenTCP.
//
//go:norace
func ListenTCP(network string, laddr *net.TCPAddr) (*TCPListener, error) {
	simrt.Yield()
	w := W()
	if laddr == nil {
		laddr = &net.TCPAddr{}
	}
	if w.ListenFail != nil {
		if err := w.ListenFail("tcp", laddr.String()); err != nil {
			simrt.Fault("listen_fail")
			return nil, opErr("listen", network, laddr, err)
		}
	}
	port := laddr.Port
	if port == 0 {
		port = w.ephemeral()
	}
	for _, e := range w.tcpL {
		if e.addr.Port == port && bindConflict(laddr.IP, e.addr.IP) {
			return nil, opErr("listen", network, laddr, &osSyscallErr{"bind", syscall.EADDRINUSE})
		}
	}
	ip := laddr.IP
	if len(ip) == 0 {
		ip = net.IPv6unspecified
	}
	l := &TCPListener{w: w, addr: &net.TCPAddr{IP: ip, Port: port, Zone: laddr.Zone}}
	w.tcpL[key(laddr.IP, laddr.Zone, port)] = l
	w.Lsns = append(w.Lsns, l)
	simrt.Log("tcp:listen", int64(port), 0)
	return l, nil
}

type osSyscallErr struct {
	call string
	err  error
}

func (e *osSyscallErr) Error() string { return e.call + ": " + e.err.Error() }
func (e *osSyscallErr) Unwrap() error { return e.err }

// Listen replaces net.Listen for tcp networks.
func Listen(network, address string) (net.Listener, error) {
	a, err := ResolveTCPAddr("tcp", address)
	if err != nil {
		return nil, err
	}
	l, err := ListenTCP(network, a)
	if err != nil {
		return nil, err
	}
	return l, nil
}

func (l *TCPListener) Addr() net.Addr { return l.addr }

func (l *TCPListener) Accept() (net.Conn, error) {
	c, err := l.AcceptTCP()
	if err != nil {
		return nil, err
	}
	return c, nil
}

//go:norace
func (l *TCPListener) AcceptTCP() (*TCPConn, error) {
	simrt.Yield()
	for {
		if l.closed {
			return nil, opErr("accept", "tcp", l.addr, net.ErrClosed)
		}
		if len(l.backlog) > 0 {
			if !l.Foreign && l.w.AcceptErr > 0 && simrt.S.Fault.Permille(l.w.AcceptErr) {
				simrt.Fault("accept_transient_error")
				return nil, opErr("accept", "tcp", l.addr, syscall.EMFILE) // what Linux really reports to Go (ECONNABORTED is retried inside Accept)
			}
			c := l.backlog[0]
			l.backlog = l.backlog[1:]
			c.Rec.Accepted = true
			l.Accepts++
			simrt.Log("tcp:accept", int64(c.Rec.ID), 0)
			return c, nil
		}
		l.waiters = append(l.waiters, simrt.Cur())
		simrt.Block("tcp accept", l)
	}
}

//go:norace
func (l *TCPListener) Close() error {
	simrt.Yield()
	if l.closed {
		return opErr("close", "tcp", l.addr, net.ErrClosed)
	}
	l.closed = true
	for k, e := range l.w.tcpL {
		if e == l {
			delete(l.w.tcpL, k)
		}
	}
	// Connections completed by the kernel but never accepted are reset.
	for _, c := range l.backlog {
		c.closed = true
		c.ev("rst-sent")
		c.peer.gotRST()
	}
	l.backlog = nil
	simrt.Log("tcp:listen-close", int64(l.addr.Port), 0)
	wakeAll(&l.waiters)
	return nil
}

func (l *TCPListener) IsClosed() bool { return l.closed }
func (l *TCPListener) Pending() int   { return len(l.backlog) }

// TCPBound reports whether a TCP listener is bound that would receive
// connections to (ip,port).
func (w *World) TCPBound(ip net.IP, port int) *TCPListener {
	l, _ := matchBound(w.tcpL, ip, "", port)
	return l
}

// BoundTCP lists the currently bound TCP listener keys.
func (w *World) BoundTCP() []string {
	var out []string
	for k := range w.tcpL {
		out = append(out, k)
	}
	return out
}

// Connect makes a TCP connection from local to (ip,port), as a kernel would:
// it completes into the listener's backlog whether or not anyone accepts.
//
//go:norace
func (w *World) Connect(local *net.TCPAddr, ip net.IP, port int) (*TCPConn, error) {
	simrt.Yield()
	raddr := &net.TCPAddr{IP: ip, Port: port}
	if w.ConnectFail != nil {
		if err := w.ConnectFail(ip, port); err != nil {
			simrt.Fault("connect_fail")
			return nil, opErr("dial", "tcp", raddr, err)
		}
	}
	l, ok := matchBound(w.tcpL, ip, "", port)
	if !ok || l.closed {
		return nil, opErr("dial", "tcp", raddr, &osSyscallErr{"connect", syscall.ECONNREFUSED})
	}
	if local == nil {
		local = &net.TCPAddr{IP: w.hostIPFor(ip)}
	}
	if local.Port == 0 {
		local = &net.TCPAddr{IP: local.IP, Port: w.ephemeral(), Zone: local.Zone}
	}
	w.nextConn++
	rec := &ConnRec{ID: w.nextConn, Opened: simrt.Elapsed()}
	a := &TCPConn{w: w, Rec: rec, side: 0, local: local, remote: raddr}
	b := &TCPConn{w: w, Rec: rec, side: 1, local: raddr, remote: local}
	a.peer, b.peer = b, a
	rec.Ends = [2]*TCPConn{a, b}
	w.Conns = append(w.Conns, rec)
	l.backlog = append(l.backlog, b)
	simrt.Log("tcp:connect", int64(rec.ID), int64(port))
	wakeAll(&l.waiters)
	return a, nil
}

// DialRec records one connection attempt made through a TCPDialer.
type DialRec struct {
	At      time.Duration
	Addr    string // as requested
	IP      net.IP // as actually dialed (after resolution)
	Port    int
	Control error // verdict of the dialer's Control hook (nil = allowed)
	Err     error
	Conn    *TCPConn
}

// TCPDialer replaces transport.TCPDialer. It reproduces what matters of
// net.Dialer: resolve the host, then for each address call the real Control
// hook with ("tcp4"/"tcp6", "ip:port") immediately before the connect.
type TCPDialer struct {
	Dialer net.Dialer
}

var _ transport.StreamDialer = (*TCPDialer)(nil)

// DialStream implements transport.StreamDialer.
//
//go:norace
func (d *TCPDialer) DialStream(ctx context.Context, addr string) (transport.StreamConn, error) {
	c, err := d.dial(ctx, addr)
	if err != nil {
		return nil, err
	}
	return c, nil
}

// Dial mirrors the older Dial method name used by some SDK versions.
func (d *TCPDialer) Dial(ctx context.Context, addr string) (transport.StreamConn, error) {
	return d.DialStream(ctx, addr)
}

//go:norace
func (d *TCPDialer) dial(ctx context.Context, addr string) (*TCPConn, error) {
	w := W()
	simrt.Yield()
	if err := ctx.Err(); err != nil {
		return nil, opErr("dial", "tcp", nil, err)
	}
	host, port, err := splitHostPort("tcp", addr)
	if err != nil {
		return nil, opErr("dial", "tcp", nil, err)
	}
	var ips []net.IP
	if host == "" {
		ips = []net.IP{nil}
	} else {
		h, _ := splitZone(host)
		if ip := net.ParseIP(h); ip != nil {
			ips = []net.IP{ip}
		} else {
			ips, err = w.Lookup(host)
			if err != nil {
				return nil, opErr("dial", "tcp", nil, err)
			}
		}
	}
	var firstErr error
	for _, ip := range ips {
		netw := "tcp6"
		if ip.To4() != nil {
			netw = "tcp4"
			ip = ip.To4()
		}
		hostStr := ""
		if len(ip) > 0 {
			hostStr = ip.String()
		}
		astr := net.JoinHostPort(hostStr, fmt.Sprint(port))
		rec := &DialRec{At: simrt.Elapsed(), Addr: addr, IP: ip, Port: port}
		w.Dials = append(w.Dials, rec)
		var cerr error
		if d.Dialer.ControlContext != nil {
			cerr = d.Dialer.ControlContext(ctx, netw, astr, nil)
		} else if d.Dialer.Control != nil {
			cerr = d.Dialer.Control(netw, astr, nil)
		}
		rec.Control = cerr
		if cerr != nil {
			e := opErr("dial", "tcp", &net.TCPAddr{IP: ip, Port: port}, cerr)
			rec.Err = e
			if firstErr == nil {
				firstErr = e
			}
			continue
		}
		cip := ip
		if len(cip) == 0 || cip.IsUnspecified() {
			// Connecting to the unspecified address reaches the local host.
			cip = net.IPv4(127, 0, 0, 1).To4()
		}
		c, err := w.Connect(nil, cip, port)
		if err == nil && ctx.Err() != nil {
			// as net.Dialer: a context cancelled while the connect was in flight makes
			// the dial fail even if the handshake completed (the socket is closed)
			c.Close()
			c, err = nil, opErr("dial", "tcp", &net.TCPAddr{IP: ip, Port: port}, ctx.Err())
			simrt.Probe("dial_cancelled_during_connect")
		}
		rec.Err = err
		if c != nil {
			rec.Conn = c
		}
		if err == nil {
			rec.IP = ip
			c.SrvEnd = true
			// the caller does not resume in the same instant the connect completes:
			// whatever else is runnable (a cancellation, a shutdown) may come first
			simrt.Yield()
			return c, nil
		}
		if firstErr == nil {
			firstErr = err
		}
	}
	if firstErr == nil {
		firstErr = opErr("dial", "tcp", nil, &net.AddrError{Err: "no addresses", Addr: addr})
	}
	return nil, firstErr
}

// Dial replaces net.Dial (tcp only) for completeness.
func Dial(network, address string) (net.Conn, error) {
	d := &TCPDialer{}
	c, err := d.dial(context.Background(), address)
	if err != nil {
		return nil, err
	}
	return c, nil
}

func DialTimeout(network, address string, _ time.Duration) (net.Conn, error) {
	return Dial(network, address)
}

func DialTCP(network string, laddr, raddr *net.TCPAddr) (*TCPConn, error) {
	return W().Connect(laddr, raddr.IP, raddr.Port)
}
