package simnet

import (
	"fmt"
	"net"
	"net/netip"
	"syscall"
	"time"

	"github.com/Jigsaw-Code/outline-ss-server/verifrt/simrt"
)

// DgramRec is the ground-truth record of one datagram handed to the network.
type DgramRec struct {
	ID        int
	At        time.Duration
	Seq       int
	From      *net.UDPAddr
	To        *net.UDPAddr
	FromSock  *UDPConn
	Payload   []byte
	ESeq      int    // run-global socket event number of the send attempt
	Fate      string // "delivered","lost","nobody","dup","delayed","write-error"
	Delivered int    // number of copies queued at a socket
	ToSock    *UDPConn
}

type qdg struct {
	from *net.UDPAddr
	data []byte
	rec  *DgramRec
}

// UDPConn is a simulated unconnected UDP socket. It replaces the
// net.PacketConn returned by net.ListenPacket.
type UDPConn struct {
	w          *World
	ID         int
	local      *net.UDPAddr
	bindIP     net.IP
	q          []qdg
	closed     bool
	rdl        deadline
	readers    []*simrt.Task
	Foreign    bool // created by the harness
	Created    time.Duration
	CreatedSeq int
	ClosedAt   time.Duration
	NSent      int
	NRecv      int
	WriteErrs  int
	// ReadLog lists, in order, the datagram copies returned by ReadFrom.
	ReadLog []*DgramRec
	// ReadSeqs/ReadAts: scheduler step and virtual time of each ReadLog entry.
	ReadSeqs []int
	ReadAts  []time.Duration
	// ReadNs: the bytes each ReadLog entry delivered into the reader's buffer (a
	// datagram longer than the buffer is cut, as by recvfrom).
	ReadNs []int
	// LastSent is the ledger record of the most recent WriteTo on this socket.
	LastSent *DgramRec
	// DlLog lists the read deadlines set on the socket, in order.
	DlLog []DeadlineRec
}

// DeadlineRec is one SetReadDeadline call: when it was made and the deadline it
// set (virtual time since the epoch; -1 = none).
type DeadlineRec struct {
	At  time.Duration
	Seq int
	T   time.Duration
}

var _ net.PacketConn = (*UDPConn)(nil)

func (c *UDPConn) SimDescribe() string { return fmt.Sprintf("udp socket %v", c.local) }

// ListenPacket replaces net.ListenPacket (udp networks only).
//
//go:norace
func ListenPacket(network, address string) (net.PacketConn, error) {
	switch network {
	case "udp", "udp4", "udp6":
	default:
		return nil, net.UnknownNetworkError(network)
	}
	var la *net.UDPAddr
	if address != "" {
		a, err := ResolveUDPAddr(network, address)
		if err != nil {
			return nil, opErr("listen", network, nil, err)
		}
		la = a
	}
	c, err := listenUDP(network, la, false)
	if err != nil {
		return nil, err
	}
	return c, nil
}

// ListenUDP replaces net.ListenUDP.
func ListenUDP(network string, laddr *net.UDPAddr) (*UDPConn, error) {
	return listenUDP(network, laddr, false)
}

//go:norace
func listenUDP(network string, la *net.UDPAddr, foreign bool) (*UDPConn, error) {
	simrt.Yield()
	w := W()
	if la == nil {
		la = &net.UDPAddr{}
	}
	if !foreign {
		if w.ListenFail != nil {
			if err := w.ListenFail("udp", la.String()); err != nil {
				simrt.Fault("listen_fail")
				return nil, opErr("listen", network, la, err)
			}
		}
		if la.Port == 0 && w.UDPSockErr > 0 && simrt.S.Fault.Permille(w.UDPSockErr) {
			simrt.Fault("udp_socket_error")
			w.SockAttempts = append(w.SockAttempts, false)
			return nil, opErr("listen", network, la, &osSyscallErr{"socket", syscall.EMFILE})
		}
		if la.Port == 0 {
			w.SockAttempts = append(w.SockAttempts, true)
		}
	}
	port := la.Port
	if port == 0 {
		port = w.ephemeral()
	}
	for _, e := range w.udpS {
		if e.local.Port == port && bindConflict(la.IP, e.bindIP) {
			return nil, opErr("listen", network, la, &osSyscallErr{"bind", syscall.EADDRINUSE})
		}
	}
	ip := la.IP
	if len(ip) == 0 {
		ip = net.IPv6unspecified
	}
	w.nextConn++
	c := &UDPConn{w: w, ID: w.nextConn, local: &net.UDPAddr{IP: ip, Port: port, Zone: la.Zone}, bindIP: la.IP, Foreign: foreign, Created: simrt.Elapsed()}
	w.EvSeq++
	c.CreatedSeq = w.EvSeq
	w.udpS[key(la.IP, la.Zone, port)] = c
	w.Socks = append(w.Socks, c)
	simrt.Log("udp:bind", int64(port), int64(c.ID))
	return c, nil
}

// BindUDP binds a harness-owned socket (client or target).
func (w *World) BindUDP(la *net.UDPAddr) (*UDPConn, error) { return listenUDP("udp", la, true) }

func (c *UDPConn) LocalAddr() net.Addr { return c.local }
func (c *UDPConn) IsClosed() bool      { return c.closed }
func (c *UDPConn) Queued() int         { return len(c.q) }

//go:norace
func (c *UDPConn) ReadFrom(p []byte) (int, net.Addr, error) {
	n, a, err := c.ReadFromUDP(p)
	if a == nil {
		return n, nil, err
	}
	return n, a, err
}

//go:norace
func (c *UDPConn) ReadFromUDP(p []byte) (int, *net.UDPAddr, error) {
	simrt.Yield()
	for {
		if c.closed {
			return 0, nil, opErr("read", "udp", c.local, net.ErrClosed)
		}
		// Go checks the deadline before it attempts the read (poll.prepareRead): an
		// expired deadline wins over queued data.
		if c.rdl.expired() {
			return 0, nil, opErr("read", "udp", c.local, errTimeout)
		}
		if len(c.q) > 0 {
			if !c.Foreign && c.w.UDPReadErr > 0 && simrt.S.Fault.Permille(c.w.UDPReadErr) {
				simrt.Fault("udp_read_transient_error")
				return 0, nil, opErr("read", "udp", c.local, syscall.ECONNREFUSED)
			}
			d := c.q[0]
			c.q = c.q[1:]
			n := copy(p, d.data)
			c.NRecv++
			c.ReadLog = append(c.ReadLog, d.rec)
			c.w.EvSeq++
			c.ReadSeqs = append(c.ReadSeqs, c.w.EvSeq)
			c.ReadAts = append(c.ReadAts, simrt.Elapsed())
			c.ReadNs = append(c.ReadNs, n)
			simrt.Log("udp:read", int64(c.ID), int64(n))
			from := *d.from
			return n, &from, nil
		}
		c.readers = append(c.readers, simrt.Cur())
		simrt.Block("udp read", c)
	}
}

// sourceFor returns the source address a datagram from this socket carries.
func (c *UDPConn) sourceFor(dst net.IP) *net.UDPAddr {
	ip := c.local.IP
	if isWild(c.bindIP) {
		ip = c.w.hostIPFor(dst)
	}
	return &net.UDPAddr{IP: ip, Port: c.local.Port, Zone: c.local.Zone}
}

//go:norace
func (c *UDPConn) WriteTo(p []byte, addr net.Addr) (int, error) {
	ua, ok := addr.(*net.UDPAddr)
	if !ok || ua == nil {
		return 0, opErr("write", "udp", c.local, syscall.EINVAL)
	}
	return c.WriteToUDP(p, ua)
}

//go:norace
func (c *UDPConn) WriteToUDP(p []byte, ua *net.UDPAddr) (int, error) {
	simrt.Yield()
	w := c.w
	if c.closed {
		return 0, opErr("write", "udp", c.local, net.ErrClosed)
	}
	if len(p) > 65507 {
		return 0, opErr("write", "udp", ua, syscall.EMSGSIZE)
	}
	c.LastSent = nil
	if ua.Port == 0 {
		// Linux refuses to send to port 0
		return 0, opErr("write", "udp", ua, syscall.EINVAL)
	}
	faulty := !c.Foreign || !w.FaultOnlyHost
	c.LastSent = nil
	if !c.Foreign && !isWild(c.bindIP) && w.UDPWriteErrBound > 0 && simrt.S.Fault.Permille(w.UDPWriteErrBound) {
		simrt.Fault("udp_write_error_listener")
		c.WriteErrs++
		return 0, opErr("write", "udp", ua, syscall.ENOBUFS)
	}
	if !c.Foreign && w.UDPWriteErr > 0 && simrt.S.Fault.Permille(w.UDPWriteErr) {
		simrt.Fault("udp_write_error")
		c.WriteErrs++
		w.EvSeq++
		w.WriteFails = append(w.WriteFails, &DgramRec{At: simrt.Elapsed(), Seq: simrt.Steps(), ESeq: w.EvSeq, To: &net.UDPAddr{IP: ua.IP, Port: ua.Port, Zone: ua.Zone},
			FromSock: c, Payload: append([]byte(nil), p...), Fate: "write-error"})
		simrt.Account(len(p) + 200)
		return 0, opErr("write", "udp", ua, syscall.ENETUNREACH)
	}
	w.nextDg++
	w.EvSeq++
	rec := &DgramRec{ID: w.nextDg, At: simrt.Elapsed(), Seq: simrt.Steps(), ESeq: w.EvSeq, From: c.sourceFor(ua.IP), To: &net.UDPAddr{IP: ua.IP, Port: ua.Port, Zone: ua.Zone},
		FromSock: c, Payload: append([]byte(nil), p...)}
	w.Dgrams = append(w.Dgrams, rec)
	simrt.Account(len(p) + 200)
	c.LastSent = rec
	c.NSent++
	simrt.Log("udp:send", int64(c.ID), int64(len(p)))
	dip := ua.IP
	if len(dip) == 0 || dip.IsUnspecified() {
		dip = net.IPv4(127, 0, 0, 1)
	}
	dst, ok := matchBound(w.udpS, dip, ua.Zone, ua.Port)
	if !ok || dst.closed {
		rec.Fate = "nobody"
		return len(p), nil
	}
	rec.ToSock = dst
	if faulty && w.UDPLoss > 0 && simrt.S.Fault.Permille(w.UDPLoss) {
		simrt.Fault("udp_loss")
		rec.Fate = "lost"
		return len(p), nil
	}
	copies := 1
	if faulty && w.UDPDup > 0 && simrt.S.Fault.Permille(w.UDPDup) {
		simrt.Fault("udp_dup")
		copies = 2
		rec.Fate = "dup"
	}
	for i := 0; i < copies; i++ {
		if faulty && w.UDPDelay > 0 && simrt.S.Fault.Permille(w.UDPDelay) {
			simrt.Fault("udp_delay_reorder")
			d := time.Duration(1+simrt.S.Fault.Draw(50)) * time.Millisecond
			if rec.Fate == "" {
				rec.Fate = "delayed"
			}
			simrt.After(d, func() { dst.enqueue(rec) })
			continue
		}
		dst.enqueue(rec)
	}
	if rec.Fate == "" {
		rec.Fate = "delivered"
	}
	return len(p), nil
}

//go:norace
func (c *UDPConn) enqueue(rec *DgramRec) {
	if c.closed {
		return
	}
	rec.Delivered++
	c.q = append(c.q, qdg{from: rec.From, data: rec.Payload, rec: rec})
	wakeAll(&c.readers)
}

//go:norace
func (c *UDPConn) Close() error {
	simrt.Yield()
	if c.closed {
		return opErr("close", "udp", c.local, net.ErrClosed)
	}
	c.closed = true
	c.ClosedAt = simrt.Elapsed()
	c.rdl.ev.Cancel()
	for k, e := range c.w.udpS {
		if e == c {
			delete(c.w.udpS, k)
		}
	}
	simrt.Log("udp:close", int64(c.ID), 0)
	wakeAll(&c.readers)
	return nil
}

func (c *UDPConn) SetDeadline(t time.Time) error { return c.SetReadDeadline(t) }

//go:norace
func (c *UDPConn) SetReadDeadline(t time.Time) error {
	simrt.Yield()
	if c.closed {
		return opErr("set", "udp", c.local, net.ErrClosed)
	}
	c.w.EvSeq++
	rec := DeadlineRec{At: simrt.Elapsed(), Seq: c.w.EvSeq, T: -1}
	if !t.IsZero() {
		rec.T = t.Sub(simrt.Epoch)
	}
	c.DlLog = append(c.DlLog, rec)
	c.rdl.set(t, func() { wakeAll(&c.readers) })
	if c.rdl.expired() {
		wakeAll(&c.readers)
	}
	return nil
}

func (c *UDPConn) SetWriteDeadline(t time.Time) error { return nil }
func (c *UDPConn) SetReadBuffer(int) error            { return nil }
func (c *UDPConn) SetWriteBuffer(int) error           { return nil }

// UDPBound returns the socket that would receive datagrams for (ip,port).
func (w *World) UDPBound(ip net.IP, port int) *UDPConn {
	c, _ := matchBound(w.udpS, ip, "", port)
	return c
}

// OpenUDP lists sockets that are still open, optionally only non-harness ones.
func (w *World) OpenUDP(onlyServer bool) []*UDPConn {
	var out []*UDPConn
	for _, c := range w.Socks {
		if !c.closed && (!onlyServer || !c.Foreign) {
			out = append(out, c)
		}
	}
	return out
}

func DialUDP(network string, laddr, raddr *net.UDPAddr) (*UDPConn, error) {
	return nil, opErr("dial", network, raddr, syscall.ENOTSUP)
}

// UDPDialer placeholder for transport.UDPDialer (not used by the repository).
type UDPDialer struct{ Dialer net.Dialer }

// ReadFromUDPAddrPort / WriteToUDPAddrPort: the netip flavours of the same calls.
func (c *UDPConn) ReadFromUDPAddrPort(b []byte) (int, netip.AddrPort, error) {
	n, a, err := c.ReadFromUDP(b)
	if err != nil || a == nil {
		return n, netip.AddrPort{}, err
	}
	return n, a.AddrPort(), nil
}

func (c *UDPConn) WriteToUDPAddrPort(b []byte, addr netip.AddrPort) (int, error) {
	return c.WriteToUDP(b, net.UDPAddrFromAddrPort(addr))
}
