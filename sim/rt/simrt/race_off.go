//go:build !race

package simrt

import "unsafe"

const RaceEnabled = false

func raceDisable() {}
func raceEnable()  {}

func RaceAcquire(p unsafe.Pointer)      {}
func RaceRelease(p unsafe.Pointer)      {}
func RaceReleaseMerge(p unsafe.Pointer) {}
