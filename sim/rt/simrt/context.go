package simrt

import (
	"context"
	"time"
)

// ContextAfterFunc replaces context.AfterFunc: f runs as a task of the
// simulation once ctx is done, instead of on a goroutine the scheduler does
// not control.
//
//go:norace
func ContextAfterFunc(ctx context.Context, f func()) (stop func() bool) {
	if S == nil {
		return context.AfterFunc(ctx, f)
	}
	stopCh := make(chan struct{})
	stopped, ran := false, false
	hb := new(byte) // registration happens before the function runs
	RaceReleaseMerge(unsafePointer(hb))
	// (the waiting task is the simulator's: in the real runtime no goroutine exists
	// until the context is done, so the leak oracles must not see one; it becomes a
	// task of the code under test when f starts)
	var me *Task
	me = S.spawn("context.AfterFunc", "sim", func() {
		RaceAcquire(unsafePointer(hb))
		t := Pre()
		select {
		case <-ctx.Done():
			Post(t)
			if !stopped {
				ran = true
				me.Kind = "repo"
				f()
			}
		case <-stopCh:
			Post(t)
		}
	})
	return func() bool {
		if ran || stopped {
			return false
		}
		stopped = true
		t := Pre()
		close(stopCh)
		Post(t)
		return true
	}
}

type deadlineCtx struct {
	context.Context
	d time.Time
}

func (c *deadlineCtx) Deadline() (time.Time, bool) { return c.d, true }
func (c *deadlineCtx) Err() error {
	if err := c.Context.Err(); err != nil {
		if context.Cause(c.Context) == context.DeadlineExceeded {
			return context.DeadlineExceeded
		}
		return err
	}
	return nil
}

// WithDeadline replaces context.WithDeadline on the virtual clock.
//
//go:norace
func WithDeadline(parent context.Context, d time.Time) (context.Context, context.CancelFunc) {
	if S == nil {
		return context.WithDeadline(parent, d)
	}
	if pd, ok := parent.Deadline(); ok && pd.Before(d) {
		d = pd
	}
	ctx, cancel := context.WithCancelCause(parent)
	ev := At(d, func() { cancel(context.DeadlineExceeded) })
	return &deadlineCtx{ctx, d}, func() {
		ev.Cancel()
		cancel(context.Canceled)
	}
}

// WithTimeout replaces context.WithTimeout on the virtual clock.
//
//go:norace
func WithTimeout(parent context.Context, d time.Duration) (context.Context, context.CancelFunc) {
	if S == nil {
		return context.WithTimeout(parent, d)
	}
	return WithDeadline(parent, NowNoTick().Add(d))
}
