// Package simrt is the deterministic scheduler, virtual clock and choice tapes
// of the verification harness. It is copied into a scratch copy of the
// repository at check time; instrumented repository code calls into it.
//
// Invariant: at any instant at most one task executes user code. Every other
// task is parked in simrt (runnable, blocked on a simulated object, waiting for
// quiescence) or natively blocked on a channel created inside the synctest
// bubble. The scheduler (the bubble's root goroutine) uses synctest.Wait as a
// quiescence barrier and then releases exactly one task chosen from the
// schedule tape.
package simrt

import (
	"fmt"
	"runtime"
	"runtime/debug"
	"sort"
	"strings"
	"sync"
	"testing"
	"time"
	_ "unsafe" // go:linkname
)

// The bubble is entered through internal/synctest directly (the harness binary
// is linked with -checklinkname=0): testing/synctest.Test would abort the whole
// test at the first data-race report, which C19 needs to survive.
//
//go:linkname synctestRun internal/synctest.Run
func synctestRun(f func())

//go:linkname synctestWait internal/synctest.Wait
func synctestWait()

type TaskState int

const (
	StRunnable TaskState = iota
	StRunning
	StBlocked // blocked on a simulated object (lock, socket, sleep)
	StNative  // blocked natively on a channel operation
	StQuiesce // waiting for the rest of the system to become idle
	StDone
)

func (s TaskState) String() string {
	return [...]string{"runnable", "running", "blocked", "chan-blocked", "await-quiesce", "done"}[s]
}

// Task is one simulated goroutine.
type Task struct {
	ID     int
	Name   string
	Kind   string // "harness" or "repo"
	Parent int
	Daemon bool // harness helper that may legitimately stay blocked at the end

	wake  chan struct{}
	state TaskState
	goid  uint64

	spin      int   // scheduling points since the task last blocked
	idleOnly  bool  // while awaiting quiescence: nothing but ticker firings have been pending since idleFrom
	idleTicks int   // ticker-only clock jumps since then
	idleFrom  int64 // ... and the virtual time at which it began
	blockWhat string
	blockObj  any
	pcs       [10]uintptr
	npcs      int
	createPCs [6]uintptr
	ncreate   int
	spawnedAt int64
	prio      int

	Panic      any
	PanicStack string
}

func (t *Task) State() TaskState { return t.state }

type event struct {
	at   int64
	seq  uint64
	fn   func()
	dead bool
	idx  int
	// periodic: the firing of a ticker. Tickers never end, so they neither keep
	// the run alive nor the system "busy" for ever (see loop)
	periodic bool
}

// Event is a handle to a scheduled event.
type Event struct{ e *event }

// Cancel prevents the event from firing.
//
//go:norace
func (e Event) Cancel() {
	if e.e != nil {
		e.e.dead = true
	}
}

const (
	PolSticky = iota
	PolUniform
	PolPCT
)

// Config of one run.
type Config struct {
	Gen, Sched, Fault *Tape
	MaxSteps          int
	MaxTime           time.Duration
	// Tick enables clock-tick injection on Now() reads.
	Tick bool
	// Policy < 0: drawn from the schedule tape.
	Policy        int
	CheckIdentity bool
	Trace         bool
}

// Sim is the state of one simulated run.
type Sim struct {
	mu    sync.Mutex
	tasks []*Task
	cur   *Task
	last  *Task
	now   int64
	evq   []*event
	evseq uint64

	Gen, Sched, Fault *Tape
	cfg               Config

	policy   int
	pPreempt int
	pctCP    []int
	pctLow   int

	steps   int
	yields  int
	aborted string
	hash    uint64
	sfp     uint64
	trace   []string
	skew    int64 // total injected clock ticks

	// Free for harness use: counters that end up in evidence.
	Faults map[string]int
	Probes map[string]int

	// Values lets sim environments (simnet, simos) attach their per-run world.
	Values map[string]any

	ledgerBytes int64
	deep        bool // preemption points inside computations are active
}

// S is the current run, nil outside a run.
var S *Sim

var Epoch = time.Date(2024, 1, 1, 0, 0, 0, 0, time.UTC)

// lastEnd is the virtual time at which the previous run ended: the clock that
// instrumented code sees outside a run (post-run hooks gather metrics there), so
// that it never mixes the wall clock with virtual timestamps.
var lastEnd int64

// TaskInfo describes a task that had not finished when the run ended.
type TaskInfo struct {
	ID      int
	Name    string
	Kind    string
	State   string
	What    string
	Where   string
	Created string
	Spin    int           // scheduling points passed since the task last blocked
	Spawned time.Duration // virtual time at which the task was started
}

type PanicInfo struct {
	TaskID int
	Name   string
	Kind   string
	Value  string
	Stack  string
}

// Result of a run.
type Result struct {
	Aborted  string
	Alive    []TaskInfo
	Panics   []PanicInfo
	Steps    int
	SimTime  time.Duration
	Hash     uint64
	SchedFP  uint64
	Skew     time.Duration
	Faults   map[string]int
	Probes   map[string]int
	Trace    []string
	NumTasks int
	Policy   int
}

//go:norace
func (s *Sim) lock() {
	raceDisable()
	s.mu.Lock()
}

//go:norace
func (s *Sim) unlock() {
	s.mu.Unlock()
	raceEnable()
}

// Run executes main as task 0 of a fresh simulation inside a synctest bubble
// and returns when the system is quiescent (nothing runnable, no events).
func Run(t *testing.T, cfg Config, main func()) (res *Result) {
	s := &Sim{Gen: cfg.Gen, Sched: cfg.Sched, Fault: cfg.Fault, cfg: cfg,
		Faults: map[string]int{}, Probes: map[string]int{}, Values: map[string]any{}, hash: 1469598103934665603, sfp: 1469598103934665603}
	if s.cfg.MaxSteps == 0 {
		s.cfg.MaxSteps = 20000
	}
	if s.cfg.MaxTime == 0 {
		s.cfg.MaxTime = 24 * time.Hour
	}
	func() {
		defer func() {
			if r := recover(); r != nil {
				msg := fmt.Sprint(r)
				if !strings.Contains(msg, "deadlock: main bubble goroutine has exited") {
					panic(r)
				}
			}
		}()
		// The function handed to the runtime is a static one (no heap closure) and
		// the run's state is reached through package variables: with a capturing
		// closure here, go1.26.8's collector now and then (about 1 worker process in
		// 60 under load, only in allocation-heavy scenarios) aborted with "found
		// pointer to free object", the free objects being exactly that closure and
		// the one it captured.
		runSim, runMain = s, main
		synctestRun(bubbleMain)
	}()
	runSim, runMain = nil, nil
	S = nil
	lastEnd = s.now
	res = s.result()
	return res
}

var (
	runSim  *Sim
	runMain func()
)

//go:norace
func bubbleMain() {
	s := runSim
	S = s
	s.initPolicy()
	s.spawn("main", "harness", runMain)
	s.loop()
}

//go:norace
func (s *Sim) initPolicy() {
	p := s.cfg.Policy
	if p < 0 {
		switch s.Sched.Draw(8) {
		case 0, 1, 2, 3:
			p = PolSticky
		case 4, 5:
			p = PolPCT
		default:
			p = PolUniform
		}
	}
	s.policy = p
	switch p {
	case PolSticky:
		s.pPreempt = [...]int{20, 100, 300, 700}[s.Sched.Draw(4)]
	case PolPCT:
		d := 1 + s.Sched.Draw(3)
		span := [...]int{30, 100, 400, 2000}[s.Sched.Draw(4)]
		for i := 0; i < d; i++ {
			s.pctCP = append(s.pctCP, s.Sched.Draw(span))
		}
		s.pctLow = 0
	}
	s.deep = s.Sched.Draw(3) == 0
}

//go:norace
func (s *Sim) spawn(name, kind string, fn func()) *Task {
	t := &Task{Name: name, Kind: kind, wake: make(chan struct{}), state: StRunnable, Parent: -1}
	if s.cur != nil {
		t.Parent = s.cur.ID
	}
	t.ncreate = runtime.Callers(3, t.createPCs[:])
	t.spawnedAt = s.now
	if s.policy == PolPCT {
		t.prio = 1000 + s.Sched.Draw(1<<16)
	}
	s.lock()
	t.ID = len(s.tasks)
	s.tasks = append(s.tasks, t)
	s.unlock()
	go func() {
		raceDisable()
		<-t.wake
		raceEnable()
		if s.cfg.CheckIdentity {
			t.goid = goid()
		}
		defer func() {
			if r := recover(); r != nil {
				t.Panic = r
				t.PanicStack = string(debug.Stack())
			}
			s.lock()
			t.state = StDone
			s.unlock()
		}()
		fn()
	}()
	return t
}

// Go starts fn as a new task; used by instrumented `go` statements.
//
//go:norace
func Go(fn func()) {
	s := S
	if s == nil {
		go fn()
		return
	}
	Yield()
	s.spawn("", "repo", fn)
}

// GoNamed starts a harness task.
//
//go:norace
func GoNamed(name string, fn func()) *Task {
	return S.spawn(name, "harness", fn)
}

// GoDaemon starts a harness task that may stay blocked at the end of a run.
//
//go:norace
func GoDaemon(name string, fn func()) *Task {
	t := S.spawn(name, "harness", fn)
	t.Daemon = true
	return t
}

// Account adds n bytes to the run's ledger size; a run whose environment ledger
// outgrows 256 MiB (a task of the code under test that sends in a loop) ends as
// inconclusive at the next scheduling point instead of exhausting memory.
//
//go:norace
func Account(n int) {
	if s := S; s != nil {
		s.ledgerBytes += int64(n)
	}
}

// Cur returns the running task (nil outside task context).
//
//go:norace
func Cur() *Task {
	if S == nil {
		return nil
	}
	return S.cur
}

//go:norace
func (s *Sim) park(t *Task, st TaskState) {
	t.npcs = runtime.Callers(3, t.pcs[:])
	s.lock()
	t.state = st
	s.unlock()
	raceDisable()
	<-t.wake
	raceEnable()
}

// Yield is a scheduling point.
//
//go:norace
func Yield() {
	s := S
	if s == nil {
		return
	}
	t := s.cur
	if t == nil {
		return
	}
	if s.cfg.CheckIdentity {
		s.checkID(t)
	}
	s.yields++
	t.spin++
	if s.yields > 4*s.cfg.MaxSteps || s.ledgerBytes > 1<<28 {
		// some task is spinning through scheduling points without ever blocking
		// (livelock in the code under test), or the recorded ledgers outgrew their
		// budget: end the run as inconclusive. Who spins is decided by the
		// per-task count of scheduling points since the task last blocked.
		if s.aborted == "" {
			s.aborted = "livelock"
			if s.ledgerBytes > 1<<28 {
				s.aborted = "ledger-budget"
			}
		}
		t.blockWhat = "aborted"
		s.park(t, StQuiesce)
		return
	}
	if s.preempt() {
		t.blockWhat = ""
		s.park(t, StRunnable)
	}
}

// Preempt is a preemption point inside a computation (loop heads and function
// entries of instrumented code). In a third of the runs ("deep" runs) the
// running task is descheduled there with a small probability; in the others it
// costs nothing and draws nothing, so their schedules are as before.
//
//go:norace
func Preempt() {
	s := S
	if s == nil || !s.deep {
		return
	}
	t := s.cur
	if t == nil || !s.Sched.Permille(25) {
		return
	}
	s.yields++
	t.spin++
	if s.yields > 4*s.cfg.MaxSteps {
		return // the livelock guard lives in Yield
	}
	t.blockWhat = ""
	s.Probes["preempted_inside_computation"]++
	s.park(t, StRunnable)
}

//go:norace
func (s *Sim) preempt() bool {
	switch s.policy {
	case PolSticky:
		return s.Sched.Permille(s.pPreempt)
	}
	return true
}

// Block parks the running task until Unblock is called for it.
//
//go:norace
func Block(what string, obj any) {
	s := S
	t := s.cur
	if s.cfg.CheckIdentity {
		s.checkID(t)
	}
	t.blockWhat = what
	t.blockObj = obj
	t.spin = 0
	s.park(t, StBlocked)
	t.blockObj = nil
}

// Unblock makes a task blocked in Block runnable again (spurious wake-ups are
// allowed; blockers re-check their condition).
//
//go:norace
func Unblock(t *Task) {
	s := S
	if s == nil || t == nil {
		return
	}
	s.lock()
	if t.state == StBlocked {
		t.state = StRunnable
	}
	s.unlock()
}

// Quiesce blocks the calling task until nothing else can run and no event is
// pending.
//
//go:norace
func Quiesce() {
	s := S
	t := s.cur
	t.blockWhat = "await quiescence"
	t.idleOnly, t.idleTicks, t.idleFrom = false, 0, s.now
	s.park(t, StQuiesce)
}

// Pre is called by instrumented code immediately before a native channel
// operation that may block; it returns the running task for Post.
//
//go:norace
func Pre() *Task {
	s := S
	if s == nil {
		return nil
	}
	t := s.cur
	Yield()
	if t != nil {
		t.npcs = runtime.Callers(2, t.pcs[:])
		t.blockWhat = "channel operation"
	}
	return t
}

// Post is called immediately after a native channel operation completed. If the
// goroutine was woken natively by another task's channel operation it parks
// itself, so that at most one task executes user code at a time.
//
//go:norace
func Post(t *Task) {
	s := S
	if s == nil || t == nil {
		return
	}
	s.lock()
	if s.cur == t && t.state == StRunning {
		s.unlock()
		return
	}
	t.state = StRunnable
	t.spin = 0 // it blocked in the native operation and was woken by another task
	s.unlock()
	raceDisable()
	<-t.wake
	raceEnable()
}

//go:norace
func (s *Sim) mix(a, b, c uint64) {
	h := s.hash
	for _, x := range [3]uint64{a, b, c} {
		h ^= x
		h *= 1099511628211
	}
	s.hash = h
}

// Log mixes an environment event into the run's event-log hash (and trace).
//
//go:norace
func Log(kind string, a, b int64) {
	s := S
	if s == nil {
		return
	}
	var k uint64
	for i := 0; i < len(kind); i++ {
		k = k*131 + uint64(kind[i])
	}
	s.mix(k, uint64(a), uint64(b))
	if s.cfg.Trace {
		id := -1
		if s.cur != nil {
			id = s.cur.ID
		}
		s.trace = append(s.trace, fmt.Sprintf("t=%d task=%d %s %d %d", s.now, id, kind, a, b))
	}
}

//go:norace
func (s *Sim) loop() {
	for {
		synctestWait()
		s.lock()
		if c := s.cur; c != nil {
			if c.state == StRunning {
				c.state = StNative
			}
			s.last = c
			s.cur = nil
		}
		if s.aborted != "" {
			s.unlock()
			return
		}
		var run []*Task
		for _, t := range s.tasks {
			if t.state == StRunnable {
				run = append(run, t)
			}
		}
		ev := s.dueEvent()
		if len(run) == 0 && ev == nil {
			nx := s.nextEvent()
			if nx != nil && s.onlyPeriodic() {
				// Nothing but ticker firings ahead. A task that awaits quiescence lets
				// the periodic work go on for a while (three firings at least and ten
				// minutes of virtual time: longer than any timeout of the scenarios) and
				// then takes the system for idle; without such a task the run is over
				// once the scenario's own task has finished.
				var q *Task
				for _, t := range s.tasks {
					if t.state == StQuiesce {
						q = t
						break
					}
				}
				if q != nil && !q.idleOnly {
					// the grace period starts when nothing but ticking is left
					q.idleOnly, q.idleTicks, q.idleFrom = true, 0, s.now
				}
				switch {
				case q != nil && q.idleTicks >= 3 && s.now-q.idleFrom >= int64(10*time.Minute):
					// (every firing of those ten minutes has been simulated: periodic work
					// that is driven by the ticker, a sweep over a table for instance, has
					// seen every instant it would have seen)
					q.state = StRunnable
					s.unlock()
					continue
				case q != nil:
					q.idleTicks++
				case len(s.tasks) > 0 && s.tasks[0].state == StDone:
					s.unlock()
					return
				}
			}
			if nx != nil && !s.onlyPeriodic() {
				for _, t := range s.tasks {
					if t.state == StQuiesce {
						t.idleOnly = false
					}
				}
			}
			if nx != nil {
				if time.Duration(nx.at) > s.cfg.MaxTime {
					s.aborted = "timecap"
					s.unlock()
					return
				}
				s.now = nx.at
				s.unlock()
				continue
			}
			var q *Task
			for _, t := range s.tasks {
				if t.state == StQuiesce {
					q = t
					break
				}
			}
			if q != nil {
				q.state = StRunnable
				s.unlock()
				continue
			}
			s.unlock()
			return
		}
		s.steps++
		if s.steps > s.cfg.MaxSteps {
			s.aborted = "steps"
			s.unlock()
			return
		}
		pick := s.choose(run, ev)
		if pick == nil && ev.periodic {
			// ticking while a task awaits quiescence is not charged to the step budget
			for _, t := range s.tasks {
				if t.state == StQuiesce && t.idleOnly {
					s.steps--
					break
				}
			}
		}
		if pick == nil {
			s.popEvent(ev)
			s.mix(uint64(s.steps), 1<<40|ev.seq, uint64(s.now))
			if s.cfg.Trace {
				s.trace = append(s.trace, fmt.Sprintf("step=%d t=%d event#%d", s.steps, s.now, ev.seq))
			}
			s.unlock()
			ev.fn()
			continue
		}
		s.mix(uint64(s.steps), uint64(pick.ID), uint64(s.now))
		{
			h := s.sfp
			h ^= uint64(pick.ID)
			h *= 1099511628211
			for i := 0; i < pick.npcs && i < 4; i++ {
				h ^= uint64(pick.pcs[i])
				h *= 1099511628211
			}
			s.sfp = h
		}
		if s.cfg.Trace {
			s.trace = append(s.trace, fmt.Sprintf("step=%d t=%d run task %d (%s)", s.steps, s.now, pick.ID, s.where(pick)))
		}
		pick.state = StRunning
		s.cur = pick
		s.unlock()
		raceDisable()
		pick.wake <- struct{}{}
		raceEnable()
	}
}

// choose picks the next task to run, or nil to run the due event ev.
//
//go:norace
func (s *Sim) choose(run []*Task, ev *event) *Task {
	// Order: previously running task first (so that 0 == "continue"), rest by id.
	if s.last != nil {
		for i, t := range run {
			if t == s.last {
				copy(run[1:i+1], run[:i])
				run[0] = t
				break
			}
		}
	}
	if s.policy == PolPCT {
		for _, cp := range s.pctCP {
			if cp == s.steps && s.last != nil {
				s.pctLow--
				s.last.prio = s.pctLow
			}
		}
		if ev != nil && (len(run) == 0 || s.Sched.Draw(2) == 0) {
			return nil
		}
		best := run[0]
		for _, t := range run[1:] {
			if t.prio > best.prio {
				best = t
			}
		}
		return best
	}
	n := len(run)
	if ev != nil {
		n++
	}
	i := s.Sched.Draw(n)
	if i < len(run) {
		return run[i]
	}
	return nil
}

//go:norace
func (s *Sim) result() *Result {
	r := &Result{Aborted: s.aborted, Steps: s.steps, SimTime: time.Duration(s.now), Hash: s.hash, SchedFP: s.sfp,
		Skew: time.Duration(s.skew), Faults: s.Faults, Probes: s.Probes, Trace: s.trace, NumTasks: len(s.tasks), Policy: s.policy}
	for _, t := range s.tasks {
		if t.Panic != nil {
			r.Panics = append(r.Panics, PanicInfo{t.ID, t.Name, t.Kind, fmt.Sprint(t.Panic), t.PanicStack})
		}
		if t.state != StDone {
			r.Alive = append(r.Alive, s.info(t))
		}
	}
	return r
}

//go:norace
func (s *Sim) info(t *Task) TaskInfo {
	what := t.blockWhat
	if t.state == StBlocked {
		if d, ok := t.blockObj.(interface{ SimDescribe() string }); ok {
			what += " " + d.SimDescribe()
		}
	}
	return TaskInfo{ID: t.ID, Name: t.Name, Kind: t.Kind, State: t.state.String(), What: what,
		Where: s.where(t), Created: frames(t.createPCs[:t.ncreate]), Spin: t.spin, Spawned: time.Duration(t.spawnedAt)}
}

//go:norace
func (s *Sim) where(t *Task) string { return frames(t.pcs[:t.npcs]) }

// frames renders the first frames outside the simulator runtime.
func frames(pcs []uintptr) string {
	if len(pcs) == 0 {
		return "?"
	}
	fr := runtime.CallersFrames(pcs)
	var out []string
	for {
		f, more := fr.Next()
		if f.Function != "" && !strings.Contains(f.Function, "/verifrt/") && !strings.HasPrefix(f.Function, "runtime.") {
			fn := f.Function
			if i := strings.LastIndex(fn, "/"); i >= 0 {
				fn = fn[i+1:]
			}
			file := f.File
			if i := strings.LastIndex(file, "/"); i >= 0 {
				file = file[i+1:]
			}
			out = append(out, fmt.Sprintf("%s(%s:%d)", fn, file, f.Line))
			if len(out) == 2 {
				break
			}
		}
		if !more {
			break
		}
	}
	if len(out) == 0 {
		return "?"
	}
	return strings.Join(out, " < ")
}

// Snapshot returns info on all tasks that are not done; callable from a task
// (typically after Quiesce).
//
//go:norace
func Snapshot() []TaskInfo {
	s := S
	var out []TaskInfo
	s.lock()
	defer s.unlock()
	for _, t := range s.tasks {
		if t.state != StDone && t != s.cur {
			out = append(out, s.info(t))
		}
	}
	return out
}

// PanicsSoFar returns the panics recorded in finished tasks.
//
//go:norace
func PanicsSoFar() []PanicInfo {
	s := S
	var out []PanicInfo
	s.lock()
	defer s.unlock()
	for _, t := range s.tasks {
		if t.Panic != nil {
			out = append(out, PanicInfo{t.ID, t.Name, t.Kind, fmt.Sprint(t.Panic), t.PanicStack})
		}
	}
	return out
}

// Holder describes who holds a simulated lock (for wait-for cycles).
type Holder interface{ SimHolder() *Task }

// WaitCycle looks for a wait-for cycle among tasks blocked on simulated locks.
//
//go:norace
func WaitCycle() []TaskInfo {
	s := S
	s.lock()
	defer s.unlock()
	for _, t0 := range s.tasks {
		seen := map[*Task]bool{}
		var path []*Task
		t := t0
		for t != nil && t.state == StBlocked && !seen[t] {
			seen[t] = true
			path = append(path, t)
			h, ok := t.blockObj.(Holder)
			if !ok {
				t = nil
				break
			}
			t = h.SimHolder()
		}
		if t != nil && t == t0 && len(path) > 1 {
			var out []TaskInfo
			for _, p := range path {
				out = append(out, s.info(p))
			}
			return out
		}
	}
	return nil
}

//go:norace
func (s *Sim) checkID(t *Task) {
	if t.goid != 0 && t.goid != goid() {
		panic(fmt.Sprintf("simrt: identity violation: task %d runs on foreign goroutine", t.ID))
	}
}

func goid() uint64 {
	var buf [64]byte
	n := runtime.Stack(buf[:], false)
	// "goroutine 123 ["
	var id uint64
	for _, c := range buf[10:n] {
		if c < '0' || c > '9' {
			break
		}
		id = id*10 + uint64(c-'0')
	}
	return id
}

// Steps returns the number of scheduling steps so far.
//
//go:norace
func Steps() int {
	if S == nil {
		return 0
	}
	return S.steps
}

// Fault counts a fired fault of the given kind.
//
//go:norace
func Fault(kind string) {
	if S != nil {
		S.Faults[kind]++
	}
}

// Probe counts a "rare condition reached" probe.
//
//go:norace
func Probe(name string) {
	if S != nil {
		S.Probes[name]++
	}
}

// SortedKeys is a helper for deterministic iteration in harness code.
func SortedKeys[V any](m map[string]V) []string {
	ks := make([]string, 0, len(m))
	for k := range m {
		ks = append(ks, k)
	}
	sort.Strings(ks)
	return ks
}

// S_spawn starts a harness task from event context (scheduler goroutine).
//
//go:norace
func S_spawn(fn func()) { S.spawn("event-task", "harness", fn) }

// Process-lifetime state of the code under test (see the instrumenter): every
// instrumented package registers a function that puts its package-level
// variables back to the values they had after the package's initialisation.
var reinits []func()

func RegisterReinit(f func()) { reinits = append(reinits, f) }

// ReinitAll is called by the harness before every run: each run starts in a
// "fresh process" as far as package-level variables go.
func ReinitAll() {
	for _, f := range reinits {
		f()
	}
}
