package simrt

import (
	"fmt"
	"reflect"
	"sort"
	"unsafe"
)

func unsafePointer(p *byte) unsafe.Pointer { return unsafe.Pointer(p) }

// Recv replaces `<-ch` in instrumented code.
//
//go:norace
func Recv[T any](ch <-chan T) T {
	t := Pre()
	v := <-ch
	Post(t)
	return v
}

// Recv2 replaces `v, ok := <-ch`.
//
//go:norace
func Recv2[T any](ch <-chan T) (T, bool) {
	t := Pre()
	v, ok := <-ch
	Post(t)
	return v, ok
}

// RangeNext drives `for v := range ch`.
//
//go:norace
func RangeNext[T any](ch <-chan T) (T, bool) { return Recv2(ch) }

// ZeroOf returns the zero value of a channel's element type.
func ZeroOf[T any](ch <-chan T) (z T) { return }

// ZeroOfSend is ZeroOf for send-only channel expressions.
func ZeroOfSend[T any](ch chan<- T) (z T) { return }

// PollRecv is a non-blocking receive.
//
//go:norace
func PollRecv[T any](ch <-chan T) (v T, ok bool, hit bool) {
	select {
	case v, ok = <-ch:
		hit = true
	default:
	}
	return
}

// PollSend is a non-blocking send.
//
//go:norace
func PollSend[T any](ch chan<- T, v T) bool {
	select {
	case ch <- v:
		return true
	default:
		return false
	}
}

// Sel is the state of one rewritten select statement.
type Sel struct {
	t     *Task
	order []int
}

// SelBegin is a scheduling point and draws the polling priority of the n
// communication cases of a select.
//
//go:norace
func SelBegin(n int) *Sel {
	t := Pre()
	sel := &Sel{t: t, order: make([]int, n)}
	for i := range sel.order {
		sel.order[i] = i
	}
	if S != nil && t != nil {
		// Fisher-Yates driven by the schedule tape; all-zero draws = source order.
		for i := 0; i < n-1; i++ {
			j := i + S.Sched.Draw(n-i)
			sel.order[i], sel.order[j] = sel.order[j], sel.order[i]
		}
	}
	return sel
}

func (s *Sel) At(i int) int { return s.order[i] }

// End is called after the select completed (natively or by polling).
//
//go:norace
func (s *Sel) End() { Post(s.t) }

// OrderedKeys returns the keys of map m in an order chosen by the schedule
// tape (canonical sort, then a drawn rotation/permutation). Go leaves map
// iteration order unspecified, so any order is a legal behaviour.
//
//go:norace
func OrderedKeys[K comparable, V any](m map[K]V) []K {
	keys := make([]K, 0, len(m))
	for k := range m {
		keys = append(keys, k)
	}
	sort.Slice(keys, func(i, j int) bool { return canon(keys[i]) < canon(keys[j]) })
	if S != nil && S.cur != nil && len(keys) > 1 {
		n := len(keys)
		if n <= 6 {
			for i := 0; i < n-1; i++ {
				j := i + S.Sched.Draw(n-i)
				keys[i], keys[j] = keys[j], keys[i]
			}
		} else {
			r := S.Sched.Draw(n)
			rot := append(append([]K{}, keys[r:]...), keys[:r]...)
			keys = rot
		}
	}
	return keys
}

func canon(k any) string {
	var b []byte
	return string(canonValue(b, reflect.ValueOf(k), 0))
}

// canonValue renders a value without calling methods or printing pointer
// values, so that the result is identical across processes.
func canonValue(b []byte, v reflect.Value, depth int) []byte {
	if depth > 6 || !v.IsValid() {
		return append(b, '?')
	}
	switch v.Kind() {
	case reflect.String:
		return append(append(b, 's'), v.String()...)
	case reflect.Bool:
		if v.Bool() {
			return append(b, 'T')
		}
		return append(b, 'F')
	case reflect.Int, reflect.Int8, reflect.Int16, reflect.Int32, reflect.Int64:
		return append(b, fmt.Sprintf("i%020d", uint64(v.Int())+1<<63)...)
	case reflect.Uint, reflect.Uint8, reflect.Uint16, reflect.Uint32, reflect.Uint64, reflect.Uintptr:
		return append(b, fmt.Sprintf("u%020d", v.Uint())...)
	case reflect.Float32, reflect.Float64:
		return append(b, fmt.Sprintf("f%v", v.Float())...)
	case reflect.Struct:
		b = append(b, '{')
		for i := 0; i < v.NumField(); i++ {
			b = canonValue(b, v.Field(i), depth+1)
			b = append(b, ',')
		}
		return append(b, '}')
	case reflect.Array:
		b = append(b, '[')
		for i := 0; i < v.Len(); i++ {
			b = canonValue(b, v.Index(i), depth+1)
			b = append(b, ',')
		}
		return append(b, ']')
	case reflect.Pointer, reflect.Interface:
		if v.IsNil() {
			return append(b, 'n')
		}
		return canonValue(append(b, '*'), v.Elem(), depth+1)
	}
	return append(b, '?')
}

// racePub is the address harness code uses to order hand-offs of objects
// between its own tasks for the race detector (a real program would pass them
// through a channel or under a lock).
var racePub byte

// RacePublish / RaceObserve give the race detector the happens-before edge of
// a harness-level hand-off (no effect without -race).
func RacePublish() { RaceReleaseMerge(unsafePointer(&racePub)) }
func RaceObserve() { RaceAcquire(unsafePointer(&racePub)) }
