package simrt

// Tape is a recorded stream of bounded choices. In generation mode values come
// from a PRNG and are recorded; in replay mode they come from Rec and an
// exhausted tape yields 0. 0 is always the "simplest" choice, which is what
// makes deletion/zeroing based shrinking converge.
type Tape struct {
	Name   string
	Rec    []uint32
	pos    int
	replay bool
	rng    splitmix
}

type splitmix struct{ s uint64 }

func (r *splitmix) next() uint64 {
	r.s += 0x9e3779b97f4a7c15
	z := r.s
	z = (z ^ (z >> 30)) * 0xbf58476d1ce4e5b9
	z = (z ^ (z >> 27)) * 0x94d049bb133111eb
	return z ^ (z >> 31)
}

// Mix derives a sub-seed from a seed and some labels.
func Mix(seed uint64, labels ...uint64) uint64 {
	r := splitmix{seed}
	x := r.next()
	for _, l := range labels {
		r.s ^= l * 0x9e3779b97f4a7c15
		x ^= r.next()
	}
	return x
}

// NewTape returns a generating tape.
func NewTape(name string, seed uint64) *Tape {
	return &Tape{Name: name, rng: splitmix{seed}}
}

// ReplayTape returns a tape that replays rec.
func ReplayTape(name string, rec []uint32) *Tape {
	return &Tape{Name: name, Rec: rec, replay: true}
}

// Draw returns a value in [0,n). n<=1 consumes nothing.
//
//go:norace
func (t *Tape) Draw(n int) int {
	if n <= 1 {
		return 0
	}
	var v uint32
	if t.replay {
		if t.pos < len(t.Rec) {
			v = t.Rec[t.pos] % uint32(n)
		}
		t.pos++
		return int(v)
	}
	v = uint32(t.rng.next() % uint64(n))
	t.Rec = append(t.Rec, v)
	t.pos++
	return int(v)
}

// Used reports how many draws were consumed.
func (t *Tape) Used() int { return t.pos }

// Recorded returns the tape contents that were actually consumed.
func (t *Tape) Recorded() []uint32 {
	n := t.pos
	if n > len(t.Rec) {
		n = len(t.Rec)
	}
	out := make([]uint32, n)
	copy(out, t.Rec[:n])
	return out
}

// Permille returns true with probability p/1000 (0 -> false).
//
//go:norace
func (t *Tape) Permille(p int) bool {
	if p <= 0 {
		return false
	}
	if p >= 1000 {
		return true
	}
	return t.Draw(1000) >= 1000-p
}

// Range returns a value in [lo,hi] with lo being the simplest.
func (t *Tape) Range(lo, hi int) int {
	if hi <= lo {
		return lo
	}
	return lo + t.Draw(hi-lo+1)
}

// Bytes derives n pseudo-random bytes from one tape draw.
func (t *Tape) Bytes(n int) []byte {
	seed := uint64(t.Draw(1 << 30))
	r := splitmix{seed*2654435761 + 1}
	b := make([]byte, n)
	for i := 0; i < n; i += 8 {
		x := r.next()
		for j := 0; j < 8 && i+j < n; j++ {
			b[i+j] = byte(x >> (8 * uint(j)))
		}
	}
	return b
}
