//go:build race

package simrt

import (
	"runtime"
	"unsafe"
)

// RaceEnabled reports whether the binary was built with -race.
const RaceEnabled = true

func raceDisable() { runtime.RaceDisable() }
func raceEnable()  { runtime.RaceEnable() }

// RaceAcquire/RaceRelease let simsync emit the happens-before edges that the
// real sync primitives emit.
func RaceAcquire(p unsafe.Pointer)      { runtime.RaceAcquire(p) }
func RaceRelease(p unsafe.Pointer)      { runtime.RaceRelease(p) }
func RaceReleaseMerge(p unsafe.Pointer) { runtime.RaceReleaseMerge(p) }
