package simrt

import (
	crand "crypto/rand"
	"time"
)

// RandRead replaces crypto/rand.Read in instrumented code: the random bytes are
// real, but the call is a scheduling point (it is a system call: the goroutine
// may be descheduled in it) and the destination is written only when the call
// returns, so that other tasks running meanwhile see the buffer's old content.
//
//go:norace
func RandRead(b []byte) (int, error) {
	if S == nil || S.cur == nil {
		return crand.Read(b)
	}
	tmp := make([]byte, len(b))
	n, err := crand.Read(tmp)
	Yield()
	copy(b, tmp[:n])
	return n, err
}

// Now is the virtual clock; instrumented code calls it instead of time.Now.
//
//go:norace
func Now() time.Time {
	s := S
	if s == nil {
		return Epoch.Add(time.Duration(lastEnd))
	}
	if s.cfg.Tick && s.cur != nil {
		s.tick()
	}
	return Epoch.Add(time.Duration(s.now))
}

// NowNoTick reads the virtual clock without tick injection (harness use).
//
//go:norace
func NowNoTick() time.Time {
	s := S
	if s == nil {
		return Epoch.Add(time.Duration(lastEnd))
	}
	return Epoch.Add(time.Duration(s.now))
}

// Elapsed returns virtual time since the start of the run.
//
//go:norace
func Elapsed() time.Duration {
	if S == nil {
		return 0
	}
	return time.Duration(S.now)
}

//go:norace
func Since(t time.Time) time.Duration { return Now().Sub(t) }

//go:norace
func Until(t time.Time) time.Duration { return t.Sub(Now()) }

// tick advances the clock by a small drawn amount on a clock read: in the real
// world time passes between any two statements.
//
//go:norace
func (s *Sim) tick() {
	if !s.Fault.Permille(300) {
		return
	}
	d := [...]int64{1, 1000, 1000000}[s.Fault.Draw(3)] * int64(1+s.Fault.Draw(9))
	s.lock()
	if nx := s.nextEvent(); nx != nil && s.now+d >= nx.at {
		d = nx.at - s.now - 1
	}
	if d > 0 {
		s.now += d
		s.skew += d
		s.Faults["clock_tick"]++
	}
	s.unlock()
}

// After schedules fn to run on the scheduler at now+d. fn must not block.
//
//go:norace
func After(d time.Duration, fn func()) Event {
	s := S
	if d < 0 {
		d = 0
	}
	s.lock()
	s.evseq++
	e := &event{at: s.now + int64(d), seq: s.evseq, fn: fn}
	s.push(e)
	s.unlock()
	return Event{e}
}

// At schedules fn at an absolute virtual time.
//
//go:norace
func At(t time.Time, fn func()) Event {
	return After(t.Sub(Epoch)-time.Duration(S.now), fn)
}

// Sleep blocks the running task for d of virtual time.
//
//go:norace
func Sleep(d time.Duration) {
	s := S
	t := s.cur
	done := false
	After(d, func() { done = true; Unblock(t) })
	for !done {
		Block("sleep", nil)
	}
}

// --- event heap (at, seq) ---

//go:norace
func (s *Sim) less(i, j int) bool {
	a, b := s.evq[i], s.evq[j]
	if a.at != b.at {
		return a.at < b.at
	}
	return a.seq < b.seq
}

//go:norace
func (s *Sim) swap(i, j int) {
	s.evq[i], s.evq[j] = s.evq[j], s.evq[i]
	s.evq[i].idx = i
	s.evq[j].idx = j
}

//go:norace
func (s *Sim) push(e *event) {
	e.idx = len(s.evq)
	s.evq = append(s.evq, e)
	i := e.idx
	for i > 0 {
		p := (i - 1) / 2
		if !s.less(i, p) {
			break
		}
		s.swap(i, p)
		i = p
	}
}

//go:norace
func (s *Sim) pop() *event {
	n := len(s.evq)
	e := s.evq[0]
	s.swap(0, n-1)
	s.evq = s.evq[:n-1]
	i := 0
	for {
		l, r, m := 2*i+1, 2*i+2, i
		if l < len(s.evq) && s.less(l, m) {
			m = l
		}
		if r < len(s.evq) && s.less(r, m) {
			m = r
		}
		if m == i {
			break
		}
		s.swap(i, m)
		i = m
	}
	return e
}

// onlyPeriodic reports whether every live pending event is a ticker firing.
//
//go:norace
func (s *Sim) onlyPeriodic() bool {
	any := false
	for _, e := range s.evq {
		if e.dead {
			continue
		}
		if !e.periodic {
			return false
		}
		any = true
	}
	return any
}

// nextEvent returns the earliest live event (dropping cancelled ones).
//
//go:norace
func (s *Sim) nextEvent() *event {
	for len(s.evq) > 0 {
		if s.evq[0].dead {
			s.pop()
			continue
		}
		return s.evq[0]
	}
	return nil
}

//go:norace
func (s *Sim) dueEvent() *event {
	if e := s.nextEvent(); e != nil && e.at <= s.now {
		return e
	}
	return nil
}

//go:norace
func (s *Sim) popEvent(e *event) {
	if len(s.evq) > 0 && s.evq[0] == e {
		s.pop()
	}
}

// Skew returns the total clock-tick time injected so far in this run.
//
//go:norace
func Skew() time.Duration {
	if S == nil {
		return 0
	}
	return time.Duration(S.skew)
}
