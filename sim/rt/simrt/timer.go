package simrt

import "time"

// AfterChan replaces time.After.
//
//go:norace
func AfterChan(d time.Duration) <-chan time.Time {
	if S == nil {
		return time.After(d)
	}
	ch := make(chan time.Time, 1)
	After(d, func() {
		select {
		case ch <- NowNoTick():
		default:
		}
	})
	return ch
}

// Timer replaces time.Timer.
type Timer struct {
	hb   byte // address for the arm -> fire happens-before edge under -race
	C    <-chan time.Time
	ev   Event
	f    bool
	fire func() // what the timer does when it expires
}

//go:norace
func NewTimer(d time.Duration) *Timer {
	ch := make(chan time.Time, 1)
	t := &Timer{C: ch}
	t.fire = func() {
		t.f = true
		select {
		case ch <- NowNoTick():
		default:
		}
	}
	t.ev = After(d, t.fire)
	return t
}

// AfterFunc replaces time.AfterFunc: f runs as a new task.
//
//go:norace
func AfterFunc(d time.Duration, f func()) *Timer {
	t := &Timer{}
	// what happened before the timer was armed happens before its function runs
	// (as with a real timer): the edge is lost otherwise, because the function is
	// started from the scheduler's goroutine
	RaceReleaseMerge(unsafePointer(&t.hb))
	t.fire = func() {
		t.f = true
		S.spawn("afterfunc", "repo", func() {
			RaceAcquire(unsafePointer(&t.hb))
			f()
		})
	}
	t.ev = After(d, t.fire)
	return t
}

//go:norace
func (t *Timer) Stop() bool {
	if t.f {
		return false
	}
	t.ev.Cancel()
	t.f = true
	return true
}

// Reset re-arms the timer (as time.Timer.Reset: reports whether it was active).
//
//go:norace
func (t *Timer) Reset(d time.Duration) bool {
	active := !t.f
	t.ev.Cancel()
	t.f = false
	RaceReleaseMerge(unsafePointer(&t.hb))
	t.ev = After(d, t.fire)
	return active
}

// Ticker replaces time.Ticker: firings are events on the virtual clock; a
// firing that finds the channel full is dropped, as with the real one.
type Ticker struct {
	C       <-chan time.Time
	ch      chan time.Time
	d       time.Duration
	ev      Event
	stopped bool
}

//go:norace
func NewTicker(d time.Duration) *Ticker {
	if d <= 0 {
		panic("non-positive interval for NewTicker")
	}
	ch := make(chan time.Time, 1)
	t := &Ticker{C: ch, ch: ch, d: d}
	t.arm()
	Probe("ticker_started")
	return t
}

//go:norace
func (t *Ticker) arm() {
	t.ev = After(t.d, func() {
		if t.stopped {
			return
		}
		select {
		case t.ch <- NowNoTick():
		default:
		}
		t.arm()
	})
	t.ev.e.periodic = true
}

//go:norace
func (t *Ticker) Stop() {
	t.stopped = true
	t.ev.Cancel()
}

//go:norace
func (t *Ticker) Reset(d time.Duration) {
	if d <= 0 {
		panic("non-positive interval for Ticker.Reset")
	}
	t.ev.Cancel()
	t.d, t.stopped = d, false
	t.arm()
}

// Tick replaces time.Tick.
//
//go:norace
func Tick(d time.Duration) <-chan time.Time {
	if d <= 0 {
		return nil
	}
	return NewTicker(d).C
}
