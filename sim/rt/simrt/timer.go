package simrt

import "time"

// AfterChan replaces time.After.
//
//go:norace
func AfterChan(d time.Duration) <-chan time.Time {
	if S == nil {
		return time.After(d)
	}
	ch := make(chan time.Time, 1)
	After(d, func() {
		select {
		case ch <- NowNoTick():
		default:
		}
	})
	return ch
}

// Timer replaces time.Timer.
type Timer struct {
	C  <-chan time.Time
	ev Event
	f  bool
}

//go:norace
func NewTimer(d time.Duration) *Timer {
	ch := make(chan time.Time, 1)
	t := &Timer{C: ch}
	t.ev = After(d, func() {
		t.f = true
		select {
		case ch <- NowNoTick():
		default:
		}
	})
	return t
}

// AfterFunc replaces time.AfterFunc: f runs as a new task.
//
//go:norace
func AfterFunc(d time.Duration, f func()) *Timer {
	t := &Timer{}
	t.ev = After(d, func() {
		t.f = true
		S.spawn("afterfunc", "repo", f)
	})
	return t
}

//go:norace
func (t *Timer) Stop() bool {
	if t.f {
		return false
	}
	t.ev.Cancel()
	t.f = true
	return true
}
