package verifharness

import (
	"fmt"
	"io"
	"net"
	"syscall"

	"github.com/Jigsaw-Code/outline-ss-server/service"
	"github.com/Jigsaw-Code/outline-ss-server/verifrt/simnet"
	"github.com/Jigsaw-Code/outline-ss-server/verifrt/simrt"
)

// C13 — listener management never deadlocks.
//
// G tasks issue ListenStream/ListenPacket/Close on 1..3 addresses of one real
// ListenerManager over simnet. Oracle: the system must quiesce with every call
// returned; afterwards the manager must still be usable.
func init() {
	Register(&Scenario{Name: "c13", LivelockIsViolation: true, Prop: "C13", MaxSteps: 20000, Run: runC13})
}

var c13Addrs = []string{"127.0.0.1:9000", "127.0.0.1:9001", "[::]:9002", ":9003"}

func runC13(rc *RunCtx) {
	G := rc.G
	simnet.NewWorld()
	m := service.NewListenerManager()
	nAddr := 1 + G.Draw(3)
	addrs := append([]string(nil), c13Addrs...)
	if G.Draw(3) == 0 {
		// the host-less spelling the legacy per-port keys use comes first
		addrs[0], addrs[3] = addrs[3], addrs[0]
	}
	nTasks := 2 + G.Draw(5)
	type opRec struct {
		task, idx int
		desc      string
		done      bool
	}
	var ops []*opRec
	finished := 0
	// Tasks may start with handles they already hold (acquired sequentially up
	// front), so that "last close races with a new listen" is one step away.
	pre := make([][]io.Closer, nTasks)
	preAddr := make([]map[string]bool, nTasks)
	closers := make([]bool, nTasks)
	listens := make([]map[string]bool, nTasks)
	rc.Phase = "setup"
	for t := 0; t < nTasks; t++ {
		n := G.Draw(3)
		preAddr[t] = map[string]bool{}
		listens[t] = map[string]bool{}
		for k := 0; k < n; k++ {
			addr := addrs[G.Draw(nAddr)]
			preAddr[t][addr] = true
			if G.Draw(2) == 0 {
				ln, err := m.ListenStream(addr)
				if err == nil {
					pre[t] = append(pre[t], ln)
				}
				rc.D("setup: task %d holds stream handle on %s", t, addr)
			} else {
				pc, err := m.ListenPacket(addr)
				if err == nil {
					pre[t] = append(pre[t], pc)
				}
				rc.D("setup: task %d holds packet handle on %s", t, addr)
			}
		}
	}
	// In a quarter of the runs one of the binds of the concurrent phase fails
	// (address busy): the failed call must return too and leave the manager usable.
	injected := 0
	if G.Draw(4) == 0 {
		failAt := G.Draw(4)
		nb := 0
		w := simnet.W()
		w.ListenFail = func(network, addr string) error {
			nb++
			if nb-1 == failAt {
				simrt.Probe("bind_failed_during_concurrent_phase")
				injected++
				return syscall.EADDRINUSE
			}
			return nil
		}
	}
	rc.Phase = "concurrent"
	// Traffic during the concurrent phase: connections and datagrams arrive on the
	// addresses while handles are acquired and released (nobody has to take them).
	if nTraffic := G.Draw(4); nTraffic > 0 {
		w := simnet.W()
		for k := 0; k < nTraffic; k++ {
			k := k
			addr := addrs[G.Draw(nAddr)]
			j := jitter(G)
			tcp := G.Draw(2) == 0
			simrt.GoDaemon(fmt.Sprintf("c13-traffic-%d", k), func() {
				j()
				ip, port := dialIP(addr)
				if tcp {
					if c, err := w.Connect(nil, ip, port); err == nil {
						simrt.Probe("connection_during_listen_close_churn")
						buf := make([]byte, 1)
						c.Read(buf) // until the server side closes it
						c.Close()
					}
					return
				}
				src := net.IPv4(198, 18, 14, byte(1+k)).To4()
				if ip.To4() == nil {
					src = net.ParseIP(fmt.Sprintf("2001:db8:14::%x", 1+k))
				}
				if fs, err := w.BindUDP(&net.UDPAddr{IP: src, Port: 7400 + k}); err == nil {
					fs.WriteToUDP([]byte("noise"), &net.UDPAddr{IP: ip, Port: port})
					fs.Close()
				}
			})
		}
	}
	// In half of the runs the handles are in use, as they are in the server: each one
	// has consumers that accept connections / read datagrams until it is closed.
	consumers := 0
	if G.Draw(2) == 0 {
		consumers = 1 + G.Draw(2)
		simrt.Probe("handles_have_consumers")
	}
	consume := func(h io.Closer) {
		for c := 0; c < consumers; c++ {
			simrt.GoDaemon("c13-consumer", func() {
				switch x := h.(type) {
				case service.StreamListener:
					for {
						c, err := x.AcceptStream()
						if err != nil {
							return
						}
						c.Close()
					}
				case net.PacketConn:
					buf := make([]byte, 2048)
					for {
						if _, _, err := x.ReadFrom(buf); err != nil {
							return
						}
					}
				}
			})
		}
	}
	for t := 0; t < nTasks; t++ {
		t := t
		nOps := 1 + G.Draw(5)
		type step struct {
			kind int
			addr string
		}
		var script []step
		for k := 0; k < nOps; k++ {
			script = append(script, step{G.Draw(3), addrs[G.Draw(nAddr)]})
			if script[k].kind == 2 {
				closers[t] = true
			} else {
				listens[t][script[k].addr] = true
			}
		}
		simrt.GoNamed(fmt.Sprintf("c13-worker-%d", t), func() {
			held := pre[t]
			for _, h := range held {
				consume(h)
			}
			for k, st := range script {
				op := &opRec{task: t, idx: k}
				ops = append(ops, op)
				switch {
				case st.kind == 2 || (st.kind < 2 && false):
					if len(held) == 0 {
						op.desc = "noop"
						op.done = true
						continue
					}
					h := held[0]
					held = held[1:]
					op.desc = "Close"
					h.Close()
				case st.kind == 0:
					op.desc = "ListenStream " + st.addr
					inj0 := injected
					ln, err := m.ListenStream(st.addr)
					if err == nil {
						held = append(held, ln)
						consume(ln)
					} else if injected == inj0 {
						rc.Failf("spurious-listen-error:stream", "task %d: ListenStream(%s) failed with %v although nothing else holds the address and no bind failure was injected: no sequential order of the calls explains it", t, st.addr, err)
					}
				default:
					op.desc = "ListenPacket " + st.addr
					inj0 := injected
					pc, err := m.ListenPacket(st.addr)
					if err == nil {
						held = append(held, pc)
						consume(pc)
					} else if injected == inj0 {
						rc.Failf("spurious-listen-error:packet", "task %d: ListenPacket(%s) failed with %v although nothing else holds the address and no bind failure was injected: no sequential order of the calls explains it", t, st.addr, err)
					}
				}
				op.done = true
			}
			// release everything still held
			for _, h := range held {
				op := &opRec{task: t, idx: -1, desc: "Close(final)"}
				ops = append(ops, op)
				h.Close()
				op.done = true
			}
			finished++
		})
		rc.D("task %d script %v", t, script)
	}
	for t1 := 0; t1 < nTasks; t1++ {
		for t2 := 0; t2 < nTasks; t2++ {
			if t1 == t2 || !closers[t1] {
				continue
			}
			for a := range preAddr[t1] {
				if listens[t2][a] {
					rc.Nontrivial = true
				}
			}
		}
	}
	if rc.Nontrivial {
		simrt.Probe("close_concurrent_with_listen_same_addr")
	}
	simrt.Quiesce()
	if finished != nTasks {
		rc.Probe("deadlock_observed")
		alive := simrt.Snapshot()
		var stuck []simrt.TaskInfo
		for _, a := range alive {
			if a.Kind == "harness" {
				stuck = append(stuck, a)
			}
		}
		cyc := simrt.WaitCycle()
		var pend []string
		for _, o := range ops {
			if !o.done {
				pend = append(pend, fmt.Sprintf("task %d: %s", o.task, o.desc))
			}
		}
		sigTasks := cyc
		if len(sigTasks) == 0 {
			sigTasks = stuck
		}
		rc.Failf("deadlock:"+siteSig(sigTasks), "%d of %d workers never returned; pending calls: %v; wait-for cycle:%s\n  all blocked tasks:%s",
			nTasks-finished, nTasks, pend, describeTasks(cyc), describeTasks(alive))
		return
	}
	simnet.W().ListenFail = nil
	rc.Phase = "usability"
	// Every address must be usable again through the manager.
	for i := 0; i < nAddr; i++ {
		ln, err := m.ListenStream(addrs[i])
		if err != nil {
			rc.Failf("unusable:ListenStream", "manager unusable after concurrent phase: ListenStream(%s): %v", addrs[i], err)
			continue
		}
		// ... and the handle obtained must work: one connection, one datagram
		w := simnet.W()
		ip, port := dialIP(addrs[i])
		simrt.GoNamed("usability-connector", func() {
			if c, err := w.Connect(nil, ip, port); err == nil {
				c.Close()
			}
		})
		if c, err := ln.AcceptStream(); err != nil {
			rc.Failf("unusable:AcceptStream", "re-acquired stream handle on %s does not accept: %v", addrs[i], err)
		} else {
			c.Close()
		}
		pc, err := m.ListenPacket(addrs[i])
		if err != nil {
			rc.Failf("unusable:ListenPacket", "manager unusable after concurrent phase: ListenPacket(%s): %v", addrs[i], err)
		} else {
			src := net.IPv4(198, 18, 13, byte(1+i)).To4()
			if ip.To4() == nil {
				src = net.ParseIP(fmt.Sprintf("2001:db8:13::%x", 1+i))
			}
			if fs, err := w.BindUDP(&net.UDPAddr{IP: src, Port: 7300 + i}); err == nil {
				fs.WriteToUDP([]byte("usable?"), &net.UDPAddr{IP: ip, Port: port})
				buf := make([]byte, 64)
				if n, _, err := pc.ReadFrom(buf); err != nil || string(buf[:n]) != "usable?" {
					rc.Failf("unusable:ReadFrom", "re-acquired packet handle on %s does not deliver: %q, %v", addrs[i], buf[:n], err)
				}
				fs.Close()
			}
			pc.Close()
		}
		ln.Close()
	}
	rc.Phase = "done"
}
