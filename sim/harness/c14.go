package verifharness

import (
	"fmt"
	"net"
	"sort"
	"strings"
	"time"

	"github.com/Jigsaw-Code/outline-ss-server/verifrt/simnet"
	"github.com/Jigsaw-Code/outline-ss-server/verifrt/simrt"
)

// C14 — UDP associations live as long as promised and are always reclaimed.
func init() {
	Register(&Scenario{Name: "c14", LivelockIsViolation: true, Prop: "C14", MaxSteps: 100000, Tick: true, Run: runC14})
	// The same timed run shape decides C04's "while an association is alive, one
	// source address": only the association-count oracle applies there.
	Register(&Scenario{Name: "c04t", Prop: "C04", MaxSteps: 100000, Tick: true, Run: func(rc *RunCtx) {
		rc.Param["as"] = "c04"
		runC14(rc)
		var keep []Violation
		for _, v := range rc.Viols {
			if v.Sig == "association-count" {
				v.Sig = "c04:source-address-changed-before-deadline"
				keep = append(keep, v)
			}
		}
		rc.Viols = keep
	}})
}

type c14send struct {
	client int
	at     time.Duration
	dns    bool
	tgt    int
	id     string
	rec    *simnet.DgramRec
	key    *Key // the key it is sent under (now and then another configured key than the client's usual one)
}

type c14assoc struct {
	client   int
	created  time.Duration
	D        time.Duration
	writes   int
	firstDNS bool
	armed    bool // fast close still possible
	reads    int
	fast     bool
	sock     *simnet.UDPConn
	fuzzy    bool // a datagram arrived inside the don't-care instant; stop judging
	ended    bool
	why      string
	key      *Key
}

func runC14(rc *RunCtx) {
	G := rc.G
	w := simnet.NewWorld()
	T := []time.Duration{50 * time.Millisecond, time.Second, 30 * time.Second, 5 * time.Minute}[G.Draw(4)]
	const dnsT = 17 * time.Second
	keys := genKeys(G, 1+G.Draw(3), "")
	m := &RecMetrics{}
	if rc.F.Draw(4) == 1 {
		// the forward to the target fails now and then (ENETUNREACH): the association
		// and its deadline exist all the same
		w.UDPWriteErr = []int{200, 600, 1000}[rc.F.Draw(3)]
	}
	srv := startUDPServer(rc, w, udpServerOpts{Keys: keys, Timeout: T, Metrics: m, Direct: true})
	// the server's goroutines before any datagram: whatever else is alive when the
	// system is idle again belongs to an association (whoever started it, under
	// whatever name)
	// (taken once the handler has reached its first read, so that helpers it
	// starts for itself are part of the baseline)
	simrt.Sleep(time.Millisecond)
	baseTasks := map[int]bool{}
	for _, t := range simrt.Snapshot() {
		baseTasks[t.ID] = true
	}
	// targets: 0,1 are DNS servers (port 53), 2,3 are not
	type tgt struct {
		sock  *simnet.UDPConn
		reply int // 0 never, 1 immediately, 2 after a delay
		delay time.Duration
		dns   bool
	}
	delays := []time.Duration{time.Millisecond, T / 2, T - time.Millisecond, T, T + time.Millisecond, dnsT - time.Millisecond, dnsT + time.Millisecond, 2 * T}
	var tgts []*tgt
	for i := 0; i < 4; i++ {
		port := 53
		if i >= 2 {
			port = 4000 + i
		}
		s, err := w.BindUDP(&net.UDPAddr{IP: net.IPv4(93, 184, 216, byte(40+i)).To4(), Port: port})
		if err != nil {
			panic(err)
		}
		t := &tgt{sock: s, reply: G.Draw(3), delay: delays[G.Draw(len(delays))], dns: i < 2}
		tgts = append(tgts, t)
		ti := i
		simrt.GoDaemon(fmt.Sprintf("c14-target-%d", i), func() {
			buf := make([]byte, 4096)
			n := 0
			for {
				_, from, err := t.sock.ReadFromUDP(buf)
				if err != nil {
					return
				}
				if t.reply == 0 {
					continue
				}
				n++
				p := []byte(fmt.Sprintf("r%d-%d|reply", ti, n))
				if t.reply == 1 {
					t.sock.WriteToUDP(p, from)
				} else {
					simrt.After(t.delay, func() {
						simrt.S_spawn(func() { t.sock.WriteToUDP(p, from) })
					})
				}
			}
		})
		rc.D("target %d port %d reply=%d delay=%v", i, port, t.reply, t.delay)
	}
	nC := 1 + G.Draw(4)
	// "torn down within bounded time", "right after", "promptly": the lower bounds
	// of the statement are exact, the upper ones get an explicit bound B (a
	// reclamation that is not driven by a per-socket deadline, e.g. a periodic
	// sweep, is as good). A datagram arriving within B after a deadline makes that
	// association don't-care.
	B := time.Second + T/10
	gaps := []time.Duration{0, time.Millisecond, T / 2, T - time.Millisecond, T, T + time.Millisecond, T + B + time.Millisecond, dnsT - time.Millisecond, dnsT, dnsT + time.Millisecond, dnsT + B + time.Millisecond, 2*T + B, 3*dnsT + B}
	var sends []*c14send
	clients := make([]*simnet.UDPConn, nC)
	for c := 0; c < nC; c++ {
		sock, err := w.BindUDP(&net.UDPAddr{IP: net.IPv4(198, 18, 9, byte(c+1)).To4(), Port: 6100 + c})
		if err != nil {
			panic(err)
		}
		clients[c] = sock
		key := keys[G.Draw(len(keys))]
		n := 1 + G.Draw(5)
		at := time.Duration(G.Draw(3)) * time.Millisecond
		var mine []*c14send
		for k := 0; k < n; k++ {
			if k > 0 {
				at += gaps[G.Draw(len(gaps))]
			}
			ti := G.Draw(4)
			s := &c14send{client: c, at: at, dns: ti < 2, tgt: ti, id: fmt.Sprintf("q%d-%d", c, k), key: key}
			if G.Draw(6) == 0 {
				// a datagram under another configured key from the same client address
				// (a client that switched keys, a NAT that reused the port): it is no
				// traffic of an association that lives under the first key
				for _, o := range keys {
					if !sameCrypto(o, key) {
						s.key = o
						simrt.Probe("datagram_under_another_configured_key")
						break
					}
				}
			}
			mine = append(mine, s)
			sends = append(sends, s)
			rc.D("client %d sends %s at %v to target %d (dns=%v)", c, s.id, at, ti, s.dns)
		}
		c := c
		simrt.GoNamed(fmt.Sprintf("c14-client-%d", c), func() {
			for _, s := range mine {
				if d := s.at - simrt.Elapsed(); d > 0 {
					simrt.Sleep(d)
				}
				ta := tgts[s.tgt].sock.LocalAddr().(*net.UDPAddr)
				plain := append(append([]byte{}, socksAddr(ta.String())...), []byte(s.id+"|q")...)
				sock.WriteToUDP(packUDP(s.key, plain), &net.UDPAddr{IP: proxyIP, Port: 9000})
				s.rec = sock.LastSent
			}
		})
	}
	// optional listener shutdown at a drawn instant
	shutdownAt := time.Duration(-1)
	if G.Draw(3) == 0 {
		shutdownAt = []time.Duration{0, T / 2, T, dnsT / 2, dnsT + T}[G.Draw(5)] + time.Duration(G.Draw(3))*time.Millisecond
		simrt.GoNamed("c14-shutdown", func() {
			simrt.Sleep(shutdownAt)
			srv.Stop()
		})
		rc.D("listener shutdown at %v", shutdownAt)
	}
	rc.D("T=%v clients=%d", T, nC)
	simrt.Quiesce()
	rc.Phase = "check"
	skew := simrt.Skew()

	// ---- reference model over the merged timeline ----
	type ev struct {
		at   time.Duration
		seq  int
		kind int // 0 client datagram processed, 1 target datagram read by an outbound socket
		send *c14send
		sock *simnet.UDPConn
		rec  *simnet.DgramRec
	}
	var evs []ev
	bySend := map[*simnet.DgramRec]*c14send{}
	for _, s := range sends {
		if s.rec != nil {
			bySend[s.rec] = s
		}
	}
	for i, rec := range srv.Sock.ReadLog {
		if s := bySend[rec]; s != nil {
			evs = append(evs, ev{at: srv.Sock.ReadAts[i], seq: srv.Sock.ReadSeqs[i], kind: 0, send: s, rec: rec})
		}
	}
	var outSocks []*simnet.UDPConn
	for _, sk := range w.Socks {
		if !sk.Foreign && sk != srv.Sock {
			outSocks = append(outSocks, sk)
			for i, rec := range sk.ReadLog {
				evs = append(evs, ev{at: sk.ReadAts[i], seq: sk.ReadSeqs[i], kind: 1, sock: sk, rec: rec})
			}
		}
	}
	sort.SliceStable(evs, func(i, j int) bool {
		if evs[i].at != evs[j].at {
			return evs[i].at < evs[j].at
		}
		return evs[i].seq < evs[j].seq
	})
	clientAt := map[int]map[time.Duration]int{}
	for _, e := range evs {
		if e.kind == 0 {
			if clientAt[e.send.client] == nil {
				clientAt[e.send.client] = map[time.Duration]int{}
			}
			clientAt[e.send.client][e.at]++
		}
	}
	live := map[int]*c14assoc{}
	var assocs []*c14assoc
	// A socket belongs to the client whose datagram was first forwarded from it.
	sockClient := map[*simnet.UDPConn]int{}
	for _, d := range w.Dgrams {
		if d.FromSock.Foreign || d.FromSock == srv.Sock {
			continue
		}
		if _, ok := sockClient[d.FromSock]; !ok {
			var c, k int
			if n, _ := fmt.Sscanf(idOf(d.Payload), "q%d-%d", &c, &k); n == 2 {
				sockClient[d.FromSock] = c
			}
		}
	}
	for _, sk := range outSocks {
		if _, ok := sockClient[sk]; ok {
			continue
		}
		// no datagram left this socket (every forward failed): attribute it by the
		// scheduler step of its creation, which lies between two reads of the handler
		best := -1
		for i, rec := range srv.Sock.ReadLog {
			if srv.Sock.ReadSeqs[i] <= sk.CreatedSeq {
				if s := bySend[rec]; s != nil {
					best = s.client
				}
			}
		}
		if best >= 0 {
			sockClient[sk] = best
		}
	}
	socksOf := map[int][]*simnet.UDPConn{}
	for _, sk := range outSocks {
		if c, ok := sockClient[sk]; ok {
			socksOf[c] = append(socksOf[c], sk)
		} else {
			socksOf[-1] = append(socksOf[-1], sk)
		}
	}
	assocOfSock := map[*simnet.UDPConn]*c14assoc{}
	nthOf := map[int]int{}
	expire := func(now time.Duration) {
		for c, a := range live {
			if shutdownAt >= 0 && now >= shutdownAt && a.D > shutdownAt {
				a.D = shutdownAt
				if a.created > shutdownAt {
					a.D = a.created
				}
				a.why = "listener shutdown"
			}
			if now > a.D+skew+B {
				a.ended = true
				delete(live, c)
			}
		}
	}
	for _, e := range evs {
		expire(e.at)
		switch e.kind {
		case 0:
			c := e.send.client
			a := live[c]
			if a != nil && e.at >= a.D {
				a.fuzzy = true // arrived within [D, D+skew+B]: either outcome is fine
				rc.Probe("datagram_at_deadline_instant")
			}
			if a != nil && !sameCrypto(a.key, e.send.key) {
				// not this association's traffic: it neither extends it nor replaces it
				rc.Probe("datagram_under_another_key_on_a_live_association")
				continue
			}
			to := T
			if e.send.dns {
				to = dnsT
			}
			if a == nil {
				a = &c14assoc{client: c, created: e.at, D: e.at + to, writes: 1, firstDNS: e.send.dns, armed: e.send.dns, why: "timeout", key: e.send.key}
				for _, p := range assocs {
					if p.client == c && p.fuzzy {
						// after a don't-care instant the model no longer knows which of the
						// client's associations exist: everything later of that client is
						// don't-care too (the end-state checks still apply)
						a.fuzzy = true
					}
				}
				live[c] = a
				assocs = append(assocs, a)
				if n := nthOf[c]; n < len(socksOf[c]) {
					a.sock = socksOf[c][n]
					assocOfSock[a.sock] = a
				}
				nthOf[c]++
			} else {
				a.writes++
				a.armed = false
				if e.at+to > a.D {
					a.D = e.at + to
				}
			}
		case 1:
			a := assocOfSock[e.sock]
			if a == nil {
				continue
			}
			a.reads++
			if a.reads == 1 && a.firstDNS {
				// A client datagram handled in the same instant as the first response
				// races with the fast-close decision: either outcome is fine.
				n := 0
				for at, k := range clientAt[a.client] {
					if d := at - e.at; d <= skew && -d <= skew {
						n += k
					}
				}
				if n >= 2 || (n >= 1 && a.created < e.at-skew) {
					a.fuzzy = true
					rc.Probe("client_datagram_same_instant_as_first_response")
				}
			}
			if a.reads == 1 && a.armed {
				if e.rec.From.Port == 53 {
					a.D = e.at
					a.fast = true
					a.why = "fast close after the first DNS response"
					rc.Probe("dns_fast_close")
				}
			}
			a.armed = false
		}
	}
	end := simrt.Elapsed()
	expire(end + time.Hour)
	if len(assocs) > 0 {
		rc.Nontrivial = true
	}
	// "its deadline never moves earlier": the read deadlines set on each outbound
	// socket only grow, except for the fast close (set to "now" after a response
	// from a DNS server was read, the socket's only forward so far having been a
	// DNS query) and for the listener's shutdown. Vacuous for an implementation that does not keep its deadline on
	// the socket.
	for _, sk := range outSocks {
		firstDNS, haveFirst := false, false
		for _, d := range w.Dgrams {
			if d.FromSock == sk {
				firstDNS, haveFirst = d.To.Port == 53, true
				break
			}
		}
		cur, curSeq := time.Duration(-1), 0
		for i, r := range sk.DlLog {
			// what the socket had sent when this deadline was set (ledger facts, not
			// the number of SetReadDeadline calls: how often and when an
			// implementation sets deadlines in between is its own business)
			sentBefore := 0
			for _, d := range w.Dgrams {
				if d.FromSock == sk && d.ESeq < r.Seq {
					sentBefore++
				}
			}
			if sentBefore == 0 {
				// a deadline put on a socket that has not forwarded anything yet is no
				// promise to any client datagram
				continue
			}
			if r.T >= 0 && cur >= 0 && r.T < cur {
				legit := shutdownAt >= 0 && r.At >= shutdownAt
				// the fast close: "now", the socket's only forward so far was a DNS
				// query, and a datagram from a DNS server has been read
				// ... and the deadline it cuts short was not an extension granted to a
				// later datagram of the client (none had reached the proxy when it was set)
				later := 0
				for j, rec := range srv.Sock.ReadLog {
					if sd := bySend[rec]; sd != nil && sd.client == sockClient[sk] && srv.Sock.ReadSeqs[j] > sk.CreatedSeq && srv.Sock.ReadSeqs[j] < curSeq {
						later++
					}
				}
				if sentBefore == 1 && later == 0 && r.T <= r.At+skew+B && firstDNS && haveFirst {
					for j, rec := range sk.ReadLog {
						if sk.ReadSeqs[j] < r.Seq && rec.From.Port == 53 {
							legit = true
						}
					}
				}
				if !legit {
					rc.Failf("deadline-moved-earlier", "outbound socket %v: read deadline moved from %v to %v at %v (deadline #%d set on the socket; %d datagrams read before; first forward DNS=%v; shutdown at %v)", sk.LocalAddr(), cur, r.T, r.At, i+1, len(sk.ReadLog), firstDNS, shutdownAt)
				} else {
					rc.Probe("deadline_moved_earlier_legitimately")
				}
			}
			if r.T >= 0 {
				cur, curSeq = r.T, r.Seq
			}
		}
	}
	// End state, whatever happened at the don't-care instants: the system is idle
	// and every deadline has passed, so every outbound socket is closed, every
	// reported association was reported removed exactly once, and no association
	// goroutine is left.
	for _, sk := range outSocks {
		if !sk.IsClosed() {
			rc.Failf("socket-never-closed", "outbound socket %v (created at %v) is still open although the system is idle at %v and every deadline has passed", sk.LocalAddr(), sk.Created, end)
		}
	}
	for i, rec := range m.UDP {
		if n := rec.count("remove"); n != 1 {
			rc.Failf("removal-report-count", "association %d (%s): removal reported %d times by the time the system is idle", i, rec.Client, n)
		}
	}
	c14leaks(rc, baseTasks, len(m.UDP))
	fuzzyAny := false
	for _, a := range assocs {
		if a.fuzzy {
			fuzzyAny = true
		}
	}
	perClient := map[int]int{}
	for _, a := range assocs {
		perClient[a.client]++
	}
	mismatch := len(socksOf[-1]) > 0 || len(m.UDP) != len(outSocks)
	for c := 0; c < nC; c++ {
		if perClient[c] != len(socksOf[c]) {
			mismatch = true
		}
	}
	if mismatch {
		if !fuzzyAny {
			var b []string
			for c := 0; c < nC; c++ {
				var ms, ss []string
				for _, a := range assocs {
					if a.client == c {
						ms = append(ms, fmt.Sprintf("[%v..%v]", a.created, a.D))
					}
				}
				for _, sk := range socksOf[c] {
					ss = append(ss, fmt.Sprintf("[%v..%v]", sk.Created, sk.ClosedAt))
				}
				b = append(b, fmt.Sprintf("client %d: model %v, proxy sockets %v", c, ms, ss))
			}
			rc.Failf("association-count", "associations over the run differ from the reference model (timeout %v, %d reported): %v: an association expired early or outlived its deadline", T, len(m.UDP), b)
		}
		return
	}
	recOf := map[*simnet.UDPConn]*UDPRec{}
	for i, sk := range outSocks {
		recOf[sk] = m.UDP[i]
	}
	for i, a := range assocs {
		if a.fuzzy || a.sock == nil {
			continue
		}
		sk := a.sock
		rec := recOf[sk]
		if !sk.IsClosed() {
			rc.Failf("socket-never-closed", "association %d (client %d): deadline %v (%s) passed, the system is idle at %v, but the outbound socket is still open", i, a.client, a.D, a.why, end)
			continue
		}
		lo, hi := a.D, a.D+skew+B
		if sk.ClosedAt < lo || sk.ClosedAt > hi {
			kind := "late"
			if sk.ClosedAt < lo {
				kind = "early"
			}
			what := "timeout"
			if a.fast {
				what = "fast-close"
			} else if a.why == "listener shutdown" {
				what = "shutdown"
			}
			rc.Failf("teardown-"+kind+":"+what, "association %d (client %d, created %v, %d client datagrams, first DNS=%v): outbound socket closed at %v, expected within [%v, %v] (%s; NAT timeout %v, clock skew %v, bound %v)", i, a.client, a.created, a.writes, a.firstDNS, sk.ClosedAt, lo, hi, a.why, T, skew, B)
		}
		nrem := 0
		for _, c := range rec.Calls {
			if c.Kind == "remove" {
				nrem++
				if c.At < lo || c.At > hi {
					rc.Failf("removal-report-time", "association %d: removal reported at %v, expected within [%v, %v]", i, c.At, lo, hi)
				}
			}
		}
		if nrem != 1 {
			rc.Failf("removal-report-count", "association %d: removal reported %d times", i, nrem)
		}
	}
	// end state: nothing of the proxy's associations is left
	c14leaks(rc, baseTasks, len(m.UDP))
	if shutdownAt < 0 {
		srv.Stop()
	}
	for _, c := range clients {
		c.Close()
	}
	for _, t := range tgts {
		t.sock.Close()
	}
	simrt.Quiesce()
	rc.Phase = "done"
}

// c14leaks: "idle clients never accumulate goroutines". When the system is idle
// and every deadline has passed, a goroutine of the code under test that was
// not there before the first datagram is a leak if it waits on a UDP socket (an
// association's relay loop whose socket was never closed), or if there is one
// for every association of a run with four or more of them, started at three or
// more different instants. Helpers that the handler starts lazily and keeps for
// its own lifetime (together, or a small pool grown on demand) do not accumulate.
func c14leaks(rc *RunCtx, base map[int]bool, nAssoc int) {
	var extra []simrt.TaskInfo
	for _, t := range simrt.Snapshot() {
		if t.Kind == "repo" && !base[t.ID] {
			extra = append(extra, t)
		}
	}
	for _, t := range extra {
		if strings.HasPrefix(t.What, "udp read") {
			rc.Failf("association-task-leak", "a goroutine started for an association is still reading its socket when the system is idle and every deadline has passed: %s", describeTasks([]simrt.TaskInfo{t}))
			return
		}
	}
	// (accumulation: started at three or more different instants of the run; a pool
	// of helpers started together, whatever its size, is one instant)
	instants := map[time.Duration]bool{}
	for _, t := range extra {
		instants[t.Spawned] = true
	}
	if nAssoc >= 4 && len(extra) >= nAssoc && len(instants) >= 3 {
		rc.Failf("association-task-leak", "%d associations have come and gone, the system is idle, and %d goroutines that were not there before the first datagram, started at %d different instants, are still alive:%s", nAssoc, len(extra), len(instants), describeTasks(extra))
	}
}

// c14m: one packet handler serving two listeners, as a service with two UDP
// listeners does. A client of listener B has an association; listener A is shut
// down ("shutting the packet listener down expires all associations" - its own).
// B's association "stays usable for at least the configured timeout after the
// client's most recent datagram": the client's next datagram, sent well inside
// the timeout, leaves from the same source address, and the association's
// removal is not reported before its deadline.
func init() {
	Register(&Scenario{Name: "c14m", Prop: "C14", MaxSteps: 100000, Run: runC14m})
}

func runC14m(rc *RunCtx) {
	G := rc.G
	w := simnet.NewWorld()
	T := []time.Duration{time.Second, 30 * time.Second, 5 * time.Minute}[G.Draw(3)]
	keys := genKeys(G, 1+G.Draw(2), "")
	m := &RecMetrics{}
	srv := startUDPServer(rc, w, udpServerOpts{Keys: keys, Timeout: T, Metrics: m, Listeners: 2})
	tgtIP := net.IPv4(93, 184, 216, 60).To4()
	tgt, err := w.BindUDP(&net.UDPAddr{IP: tgtIP, Port: 7300})
	if err != nil {
		panic(err)
	}
	tgt.Foreign = true
	var seen []*net.UDPAddr // source addresses of the datagrams the target got, in order
	simrt.GoDaemon("c14m-target", func() {
		buf := make([]byte, 2048)
		for {
			_, from, err := tgt.ReadFromUDP(buf)
			if err != nil {
				return
			}
			seen = append(seen, from)
		}
	})
	defer tgt.Close()
	key := keys[G.Draw(len(keys))]
	cl, err := w.BindUDP(&net.UDPAddr{IP: net.IPv4(198, 18, 14, 1).To4(), Port: 6140})
	if err != nil {
		panic(err)
	}
	defer cl.Close()
	bPort := 9001 // the second listener
	send := func(tag string) {
		plain := append(socksAddr(fmt.Sprintf("%s:7300", tgtIP)), []byte(tag)...)
		cl.WriteToUDP(packUDP(key, plain), &net.UDPAddr{IP: proxyIP, Port: bPort})
	}
	send("first")
	simrt.Sleep(time.Duration(1+G.Draw(4)) * T / 20)
	// the first listener goes away (a reload that drops one of the service's
	// addresses); with its own traffic or without
	if G.Draw(2) == 0 {
		other, err := w.BindUDP(&net.UDPAddr{IP: net.IPv4(198, 18, 14, 2).To4(), Port: 6141})
		if err == nil {
			plain := append(socksAddr(fmt.Sprintf("%s:7300", tgtIP)), []byte("on-A")...)
			other.WriteToUDP(packUDP(key, plain), &net.UDPAddr{IP: proxyIP, Port: 9000})
			simrt.Sleep(time.Millisecond)
			other.Close()
		}
	}
	srv.PCs[0].Close()
	closedAt := simrt.Elapsed()
	simrt.Sleep(time.Duration(1+G.Draw(4)) * T / 20)
	secondAt := simrt.Elapsed()
	send("second")
	simrt.Sleep(T / 20)
	rc.Nontrivial = true
	var mine []*net.UDPAddr
	for _, a := range seen {
		mine = append(mine, a)
	}
	// the association of the B client
	var rec *UDPRec
	for _, r := range m.UDP {
		if r.Client == cl.LocalAddr().String() && rec == nil {
			rec = r
		}
	}
	if rec == nil {
		rc.Inconclusive = append(rc.Inconclusive, "no-association")
	} else {
		if rec.RemAt >= 0 && rec.RemAt < secondAt {
			rc.Failf("teardown-early:other-listener-shutdown", "one handler, two listeners: the association of a client of the second listener was reported removed at %v, right after the FIRST listener was closed at %v, although its client's last datagram was less than the timeout %v old", rec.RemAt, closedAt, T)
		}
		n := 0
		for _, r := range m.UDP {
			if r.Client == cl.LocalAddr().String() {
				n++
			}
		}
		if n > 1 {
			rc.Failf("teardown-early:other-listener-shutdown", "one handler, two listeners: the client of the second listener got %d associations for two datagrams %v apart (timeout %v); the first listener had been closed in between", n, secondAt-closedAt, T)
		}
	}
	// everything expires in the end
	srv.PCs[1].Close()
	simrt.Sleep(T + time.Second + T/10)
	simrt.Quiesce()
	for _, sk := range w.OpenUDP(true) {
		if sk != srv.Socks[0] && sk != srv.Socks[1] {
			rc.Failf("socket-never-closed", "outbound socket %v is still open after both listeners were closed and the timeout passed", sk.LocalAddr())
		}
	}
	rc.Phase = "done"
}
