package verifharness

import (
	"bytes"
	"fmt"
	"net"
	"time"

	"github.com/Jigsaw-Code/outline-sdk/transport/shadowsocks"
	"github.com/Jigsaw-Code/outline-ss-server/verifrt/simnet"
	"github.com/Jigsaw-Code/outline-ss-server/verifrt/simrt"
)

// C02 — TCP relay delivers both byte streams intact, in order, with half-close.
func init() {
	Register(&Scenario{Name: "c02", Prop: "C02", MaxSteps: 200000, Run: runC02})
}

var c02Sizes = []int{1, 2, 17, 100, 1000, 1460, 4096, 16383, 16384, 16385, 40000, 70000, 200000}

func genMsgs(G *simrt.Tape, maxMsgs int, big bool) [][]byte {
	n := G.Draw(maxMsgs + 1)
	var out [][]byte
	for i := 0; i < n; i++ {
		lim := len(c02Sizes)
		if !big {
			lim = 9
		}
		sz := c02Sizes[G.Draw(lim)]
		if G.Draw(4) == 0 {
			sz = 1 + G.Draw(300)
		}
		out = append(out, payload(G, sz))
	}
	return out
}

func concat(m [][]byte) []byte {
	var b []byte
	for _, x := range m {
		b = append(b, x...)
	}
	return b
}

type c02conn struct {
	k        int
	key      *Key
	order    int // 0 A: client first; 1 B: target first; 2 C: concurrent; 3 D: client never half-closes
	abort    bool
	tabort   bool // the target dies mid-stream (RST) instead
	up, down [][]byte
	coalesce bool
	addrCut  int // >0: the address header is cut into Shadowsocks chunks at this offset; -1: one byte per chunk
	// an idle period longer than the handshake timeout before the i-th message
	// of a direction (-1: none): a relay outlives every handshake deadline
	pauseUp, pauseDown int
	addrStr            string
	tgtIP              net.IP
	tgtPort            int

	client     *simnet.TCPConn
	gotDown    []byte
	downErr    error
	clientDone bool
	tc         *targetConn
	aborted    bool
	dialErr    error
}

func runC02(rc *RunCtx) {
	G := rc.G
	F := rc.F
	w := simnet.NewWorld()
	// swarm: environment perturbations that are legal and keep the oracle exact
	if F.Draw(2) == 1 {
		w.ShortRead = []int{50, 300, 900}[F.Draw(3)]
	}
	smallWin := F.Draw(3) == 1
	winSel := F.Draw(4)
	abortsOn := F.Draw(4) == 1
	if F.Draw(4) == 1 {
		w.EOFWithData = []int{300, 1000}[F.Draw(2)] // a stream's last bytes may arrive together with its end
	}
	keys := genKeys(G, 1+G.Draw(6), "")
	srv := startTCPServer(rc, w, tcpServerOpts{Keys: keys, Replay: []int{0, 50}[G.Draw(2)], Timeout: []time.Duration{time.Second, 59 * time.Second}[G.Draw(2)], UseSvc: G.Draw(3) == 0, Debug: rc.F.Draw(3) == 1})
	nConn := 1 + G.Draw(3)
	big := rc.Tier == "thorough" || G.Draw(5) == 0
	conns := make([]*c02conn, nConn)
	for k := range conns {
		c := &c02conn{k: k, key: keys[G.Draw(len(keys))], order: G.Draw(4), up: genMsgs(G, 4, big), down: genMsgs(G, 4, big), coalesce: G.Draw(2) == 0}
		c.tgtPort = 8000 + k
		switch G.Draw(3) {
		case 0:
			c.tgtIP = net.IPv4(93, 184, 216, byte(34+k)).To4()
			c.addrStr = fmt.Sprintf("%s:%d", c.tgtIP, c.tgtPort)
		case 1:
			c.tgtIP = net.ParseIP(fmt.Sprintf("2606:2800:220:1::%x", 0x100+k))
			c.addrStr = fmt.Sprintf("[%s]:%d", c.tgtIP, c.tgtPort)
		default:
			c.tgtIP = net.IPv4(93, 184, 216, byte(134+k)).To4()
			host := fmt.Sprintf("host%d.example.org", k)
			w.Script(host, []net.IP{c.tgtIP})
			c.addrStr = fmt.Sprintf("%s:%d", host, c.tgtPort)
		}
		if abortsOn && F.Draw(3) == 0 {
			c.abort = true
		} else if abortsOn && F.Draw(3) == 0 {
			c.tabort = true
		}
		c.pauseUp, c.pauseDown = -1, -1
		if !c.abort && !c.tabort {
			if G.Draw(5) == 0 {
				c.pauseDown = G.Draw(len(c.down) + 1)
			}
			if G.Draw(5) == 0 {
				c.pauseUp = G.Draw(len(c.up) + 1)
			}
		}
		// the plaintext is a stream: the address header need not arrive in one chunk
		if G.Draw(4) == 0 {
			if G.Draw(4) == 0 {
				c.addrCut = -1
			} else {
				c.addrCut = 1 + G.Draw(len(socksAddr(c.addrStr))-1)
			}
			simrt.Probe("address_header_split_over_chunks")
		}
		conns[k] = c
		rc.D("conn %d pauseUp=%d pauseDown=%d addrCut=%d", k, c.pauseUp, c.pauseDown, c.addrCut)
		rc.D("conn %d key=%s order=%s up=%v down=%v coalesce=%v addr=%s abort=%v", k, c.key.ID, "ABCD"[c.order:c.order+1], lens(c.up), lens(c.down), c.coalesce, c.addrStr, c.abort)
	}
	if smallWin {
		tot := 0
		for _, c := range conns {
			tot += len(concat(c.up)) + len(concat(c.down))
		}
		if tot < 3000 {
			w.Window = []int{1, 7, 64, 512}[winSel]
		} else {
			w.Window = []int{257, 1024, 4096, 16384}[winSel]
		}
		simrt.Fault("tcp_small_window")
	}
	rc.Phase = "relay"
	idle := srv.Timeout + 300*time.Millisecond
	for _, c := range conns {
		c := c
		upAll := concat(c.up)
		startTarget(w, c.tgtIP, c.tgtPort, func(tc *targetConn) {
			c.tc = tc
			readToEOF := func() {
				buf := make([]byte, 32*1024)
				for {
					n, err := tc.C.Read(buf)
					tc.Got = append(tc.Got, buf[:n]...)
					if err != nil {
						if err.Error() == "EOF" {
							tc.SawEOF = true
							tc.EOFAt = simrt.Elapsed()
							tc.GotAtEOF = len(tc.Got)
						} else {
							tc.ReadErr = err
						}
						return
					}
				}
			}
			writeDown := func() {
				if c.tabort {
					// the target sends part of its data and then resets the connection
					all := concat(c.down)
					n := F.Draw(len(all) + 1)
					tc.C.Write(all[:n])
					tc.C.Abort()
					c.aborted = true
					simrt.Fault("target_rst_midstream")
					return
				}
				for i, m := range c.down {
					if i == c.pauseDown {
						simrt.Sleep(idle)
						simrt.Probe("relay_idle_longer_than_handshake_timeout")
					}
					if err := writeSegmented(G, tc.C, m, 3); err != nil {
						return
					}
				}
				if c.pauseDown == len(c.down) {
					simrt.Sleep(idle)
				}
			}
			switch c.order {
			case 0: // client speaks and half-closes first; target answers after EOF
				readToEOF()
				writeDown()
				tc.C.Close()
			case 1: // target speaks and half-closes first
				writeDown()
				tc.C.CloseWrite()
				readToEOF()
				tc.C.Close()
			case 2:
				var wdone flag
				simrt.GoNamed("target-writer", func() { writeDown(); tc.C.CloseWrite(); wdone.Set() })
				readToEOF()
				wdone.Wait()
				tc.C.Close()
			case 3: // client never half-closes: read exactly the expected bytes
				buf := make([]byte, 32*1024)
				for len(tc.Got) < len(upAll) {
					n, err := tc.C.Read(buf)
					tc.Got = append(tc.Got, buf[:n]...)
					if err != nil {
						if err.Error() == "EOF" {
							tc.SawEOF = true
							tc.GotAtEOF = len(tc.Got)
						} else {
							tc.ReadErr = err
						}
						break
					}
				}
				writeDown()
				tc.C.Close()
			}
		})
		simrt.GoNamed(fmt.Sprintf("client-%d", c.k), func() {
			cc, err := srv.connect(net.IPv4(198, 18, 0, byte(10+c.k)).To4(), 30000+c.k)
			if err != nil {
				c.dialErr = err
				c.clientDone = true
				return
			}
			c.client = cc
			enc := newEncoder(c.key)
			var wire [][]byte
			rest := c.up
			hdr := socksAddr(c.addrStr)
			switch {
			case c.addrCut > 0:
				wire = append(wire, enc.Chunk(hdr[:c.addrCut]))
				hdr = hdr[c.addrCut:]
			case c.addrCut < 0:
				for len(hdr) > 1 {
					wire = append(wire, enc.Chunk(hdr[:1]))
					hdr = hdr[1:]
				}
			}
			if c.coalesce && len(rest) > 0 {
				enc.Lazy(hdr)
				wire = append(wire, enc.Chunk(rest[0]))
				rest = rest[1:]
			} else {
				wire = append(wire, enc.Chunk(hdr))
			}
			var rdone flag
			simrt.GoNamed(fmt.Sprintf("client-reader-%d", c.k), func() {
				r := shadowsocks.NewReader(cc, c.key.EK)
				c.gotDown, c.downErr = readAll(r)
				rdone.Set()
			})
			send := func(b []byte) bool {
				if c.abort && !c.aborted && F.Draw(3) == 0 {
					// client dies mid-stream: write a prefix, then RST
					n := F.Draw(len(b) + 1)
					cc.Write(b[:n])
					cc.Abort()
					c.aborted = true
					simrt.Fault("client_rst_midstream")
					return false
				}
				return writeSegmented(G, cc, b, 4) == nil
			}
			ok := true
			for _, wb := range wire {
				if ok = send(wb); !ok {
					break
				}
			}
			if ok && c.order == 1 {
				rdone.Wait() // target spoke and half-closed; now the client talks
			}
			for i, m := range rest {
				if !ok {
					break
				}
				if i == c.pauseUp {
					simrt.Sleep(idle)
					simrt.Probe("relay_idle_longer_than_handshake_timeout")
				}
				ok = send(enc.Chunk(m))
			}
			if ok && c.pauseUp == len(rest) {
				simrt.Sleep(idle)
			}
			if ok && c.order != 3 {
				cc.CloseWrite()
			}
			if c.tabort && c.order == 3 {
				// the client never half-closes in order D; with a dead target nothing else ends the exchange
				rdone.WaitFor(time.Second)
				cc.CloseWrite()
			}
			rdone.Wait()
			if !c.aborted {
				cc.Close()
			}
			c.clientDone = true
		})
	}
	// In a quarter of the runs the listener is closed (a reload that drops the
	// address, a shutdown) once every connection of the run has reached its target:
	// the connections of the run are established relays by then and complete as
	// they would have.
	if G.Draw(4) == 0 {
		ny := G.Draw(8)
		pause := time.Duration(G.Draw(3)) * 200 * time.Millisecond
		simrt.GoNamed("c02-listener-close", func() {
			// (relaying = a byte has crossed its target connection: a dial still in
			// flight is cancelled with the listener's context, and rightly so, and a
			// server may as well drop what it has dialed but not begun to relay)
			all := false
			for tries := 0; tries < 2000 && !all; tries++ {
				all = true
				for _, c := range conns {
					if c.dialErr == nil && (c.tc == nil || (len(c.tc.C.Peer().Wrote) == 0 && (c.client == nil || len(c.client.Peer().Wrote) == 0))) {
						all = false
					}
				}
				if !all {
					simrt.Sleep(time.Millisecond)
				}
			}
			if !all {
				return
			}
			simrt.Sleep(pause)
			for i := 0; i < ny; i++ {
				simrt.Yield()
			}
			srv.Stop()
			simrt.Probe("listener_closed_under_established_relays")
		})
	}
	simrt.Quiesce()
	rc.Phase = "check"
	for _, c := range conns {
		if !c.clientDone {
			rc.Failf("relay-stalled", "conn %d (order %s): client never finished; %s", c.k, "ABCD"[c.order:c.order+1], describeTasks(simrt.Snapshot()))
			continue
		}
		if c.dialErr != nil {
			rc.Failf("connect-refused", "conn %d: connecting to the proxy failed: %v", c.k, c.dialErr)
			continue
		}
		upAll, downAll := concat(c.up), concat(c.down)
		var got []byte
		if c.tc != nil {
			got = c.tc.Got
		}
		if c.aborted {
			if c.tabort {
				rc.Probe("target_abort")
			} else {
				rc.Probe("client_abort")
			}
			// Relaxed oracle under an injected client RST: never wrong bytes.
			if !prefixOf(got, upAll) {
				rc.Failf("corrupt-upstream-under-abort", "conn %d: target received bytes that are not a prefix of what the client sent (first difference at %d of %d)", c.k, firstDiff(got, upAll), len(got))
			}
			if !prefixOf(c.gotDown, downAll) {
				rc.Failf("corrupt-downstream-under-abort", "conn %d: client decrypted bytes that are not a prefix of what the target sent (first difference at %d)", c.k, firstDiff(c.gotDown, downAll))
			}
			continue
		}
		rc.Nontrivial = true
		if c.tc == nil && freshRefusalExcused(rc, c.key, c.client.Wrote) {
			continue
		}
		if c.tc == nil {
			rc.Failf("target-never-contacted", "conn %d: valid handshake under configured key %s but the target %s was never contacted", c.k, c.key, c.addrStr)
			continue
		}
		if !bytes.Equal(got, upAll) {
			kind := "upstream-mismatch"
			if prefixOf(got, upAll) {
				kind = "upstream-truncated"
			}
			rc.Failf(kind, "conn %d (order %s, coalesce=%v): target received %d bytes, client sent %d after the address header; first difference at %d", c.k, "ABCD"[c.order:c.order+1], c.coalesce, len(got), len(upAll), firstDiff(got, upAll))
		}
		if !bytes.Equal(c.gotDown, downAll) {
			kind := "downstream-mismatch"
			if prefixOf(c.gotDown, downAll) {
				kind = "downstream-truncated"
			}
			rc.Failf(kind, "conn %d (order %s): client decrypted %d bytes (err %v), target sent %d; first difference at %d", c.k, "ABCD"[c.order:c.order+1], len(c.gotDown), c.downErr, len(downAll), firstDiff(c.gotDown, downAll))
		}
		if c.downErr != nil {
			rc.Failf("downstream-error", "conn %d: client's decrypting reader ended with %v instead of a clean end of stream", c.k, c.downErr)
		}
		if c.order != 3 {
			if !c.tc.SawEOF {
				rc.Failf("half-close-not-propagated", "conn %d (order %s): client half-closed but the target never saw end of stream (read error %v)", c.k, "ABCD"[c.order:c.order+1], c.tc.ReadErr)
			} else if c.tc.GotAtEOF != len(upAll) {
				rc.Failf("eof-before-data", "conn %d: target saw end of stream after %d of %d client bytes", c.k, c.tc.GotAtEOF, len(upAll))
			}
		} else if c.tc.SawEOF {
			rc.Failf("spurious-eof-at-target", "conn %d (order D): target saw end of stream although the client had not half-closed", c.k)
		}
		rc.State(fmt.Sprintf("order=%d coalesce=%v up=%d down=%d", c.order, c.coalesce, len(c.up), len(c.down)))
	}
	rc.Phase = "stop"
	srv.Stop()
	simrt.Quiesce()
	rc.Phase = "done"
}

func lens(m [][]byte) []int {
	var o []int
	for _, x := range m {
		o = append(o, len(x))
	}
	return o
}
