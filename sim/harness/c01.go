package verifharness

import (
	"fmt"
	"net"
	"strings"
	"time"

	"github.com/Jigsaw-Code/outline-sdk/transport/shadowsocks"
	"github.com/Jigsaw-Code/outline-ss-server/verifrt/simnet"
	"github.com/Jigsaw-Code/outline-ss-server/verifrt/simrt"
)

// C01 — TCP access-key authentication is sound and complete for every key list.
func init() {
	Register(&Scenario{Name: "c01", Prop: "C01", MaxSteps: 200000, Run: runC01})
}

type c01version struct {
	keys               []*Key
	startSeq, endSeq   int // Update call started / returned (scheduler steps)
	installed, started bool
}

func (v *c01version) has(k *Key) bool {
	for _, x := range v.keys {
		if sameCrypto(x, k) {
			return true
		}
	}
	return false
}

func (v *c01version) idsFor(k *Key) map[string]bool {
	m := map[string]bool{}
	for _, x := range v.keys {
		if sameCrypto(x, k) {
			m[x.ID] = true
		}
	}
	return m
}

func runC01(rc *RunCtx) {
	G := rc.G
	w := simnet.NewWorld()
	if rc.F.Draw(2) == 1 {
		w.ShortRead = []int{100, 500, 950}[rc.F.Draw(3)]
	}
	maxU := 40
	if rc.Tier == "thorough" && G.Draw(6) == 0 {
		maxU = 300
	}
	nU := 1 + G.Draw(maxU)
	if G.Draw(3) == 0 {
		nU = 1 + G.Draw(5)
	}
	U := genKeys(G, nU, "")
	// rotated variants: the same id with new key material (another secret, the
	// same cipher or one with the same salt size); a version holds either form
	sameSalt := map[string][]string{"chacha20-ietf-poly1305": {"chacha20-ietf-poly1305", "aes-256-gcm"}, "aes-256-gcm": {"aes-256-gcm", "chacha20-ietf-poly1305"},
		"aes-192-gcm": {"aes-192-gcm"}, "aes-128-gcm": {"aes-128-gcm"}}
	rotated := map[*Key]*Key{}
	if G.Draw(3) == 0 {
		for _, k := range U {
			if G.Draw(3) == 0 {
				cs := sameSalt[k.Cipher]
				rotated[k] = mkKey(k.ID, cs[G.Draw(len(cs))], k.Secret+"-rotated")
			}
		}
		if len(rotated) > 0 {
			simrt.Probe("key_material_rotated_under_same_id")
		}
	}
	subset := func() []*Key {
		var s []*Key
		mode := G.Draw(4)
		for _, k := range U {
			if mode == 0 || G.Draw(3) != 0 {
				if r := rotated[k]; r != nil && G.Draw(2) == 0 {
					k = r
				}
				s = append(s, k)
			}
		}
		if len(s) == 0 {
			s = append(s, U[G.Draw(len(U))])
		}
		// random order
		for i := len(s) - 1; i > 0; i-- {
			j := G.Draw(i + 1)
			s[i], s[j] = s[j], s[i]
		}
		return s
	}
	nVer := 1 + G.Draw(4)
	vers := make([]*c01version, nVer)
	for i := range vers {
		vers[i] = &c01version{keys: subset()}
	}
	vers[0].installed, vers[0].started = true, true
	srv := startTCPServer(rc, w, tcpServerOpts{Keys: vers[0].keys, Replay: []int{0, 1000}[G.Draw(2)], Timeout: time.Second, UseSvc: false, Debug: rc.F.Draw(3) == 1})
	rc.D("universe=%d versions=%d sizes=%v", nU, nVer, func() []int {
		var o []int
		for _, v := range vers {
			o = append(o, len(v.keys))
		}
		return o
	}())
	// updater
	for i := 1; i < nVer; i++ {
		i := i
		j := jitter(G)
		prev := i - 1
		simrt.GoNamed(fmt.Sprintf("updater-%d", i), func() {
			// versions are installed in order
			for !vers[prev].installed {
				simrt.Sleep(time.Millisecond)
			}
			j()
			vers[i].startSeq = simrt.Steps()
			vers[i].started = true
			srv.Ciphers.Update(mkCipherList(vers[i].keys))
			vers[i].endSeq = simrt.Steps()
			vers[i].installed = true
		})
	}
	type conn struct {
		k          int
		kind       int // 0 valid under universe key, 1 random bytes, 2 valid under a key outside the universe
		key        *Key
		raw        []byte
		ip         net.IP
		connectSeq int
		c          *simnet.TCPConn
		echoed     []byte
		done       bool
		err        error
		saltPrefix []byte
	}
	nConn := 1 + G.Draw(8)
	if G.Draw(3) == 0 {
		nConn = 4 + G.Draw(10) // longer usage histories that reorder the MRU / last-IP optimisation
	}
	clientIPs := []net.IP{net.IPv4(198, 18, 0, 1).To4(), net.IPv4(198, 18, 0, 2).To4(), net.ParseIP("2001:db8:1::9"), net.IPv4(198, 18, 7, 7).To4()}
	outsider := mkKey("outsider", cipherNames[G.Draw(4)], "not-in-any-list")
	conns := make([]*conn, nConn)
	tgtIP := net.IPv4(93, 184, 216, 34).To4()
	for k := range conns {
		k := k
		c := &conn{k: k, ip: clientIPs[G.Draw(1+G.Draw(len(clientIPs)))]} // biased to few IPs shared by several keys
		switch G.Draw(6) {
		case 0:
			c.kind = 1
			c.raw = payload(G, G.Draw(201))
		case 1:
			c.kind = 2
			c.key = outsider
		default:
			c.kind = 0
			c.key = U[G.Draw(len(U))]
			if r := rotated[c.key]; r != nil && G.Draw(2) == 0 {
				c.key = r
			}
		}
		// the salt is the client's choice: any bytes, for instance a prefix that makes
		// the connection look like another protocol (the Outline client's option)
		if c.kind != 1 && G.Draw(6) == 0 {
			pre := [][]byte{[]byte("GET "), []byte("POST "), []byte("HEAD "), []byte("PUT "), []byte("SSH-2.0"), {0x16, 0x03, 0x01}, {0x16, 0x03, 0x03}, []byte("HTTP/1.1 "), {0x13, 'B', 'i', 't'}, {0, 0, 0, 0}, {0xff, 0xff, 0xff, 0xff}}
			c.saltPrefix = pre[G.Draw(len(pre))]
			simrt.Probe("salt_with_a_protocol_looking_prefix")
		}
		conns[k] = c
		port := 8000 + k
		startTarget(w, tgtIP, port, func(tc *targetConn) {
			// echo until EOF
			buf := make([]byte, 4096)
			for {
				n, err := tc.C.Read(buf)
				if n > 0 {
					tc.Got = append(tc.Got, buf[:n]...)
					tc.C.Write(buf[:n])
				}
				if err != nil {
					break
				}
			}
			tc.C.Close()
		})
		j := jitter(G)
		// some clients connect and take their time before they send anything: the
		// server holds whatever it prepared for them meanwhile
		pre := time.Duration(0)
		if G.Draw(3) == 0 {
			pre = time.Duration(1+G.Draw(4)) * time.Millisecond
		}
		simrt.GoNamed(fmt.Sprintf("client-%d", k), func() {
			j()
			c.connectSeq = simrt.Steps()
			cc, err := srv.connect(c.ip, 20000+k)
			if err != nil {
				c.err = err
				c.done = true
				return
			}
			c.c = cc
			if pre > 0 {
				simrt.Sleep(pre)
			}
			if c.kind == 1 {
				writeSegmented(G, cc, c.raw, 3)
				cc.CloseWrite()
				readAll(cc)
				cc.Close()
				c.done = true
				return
			}
			enc := newEncoder(c.key)
			if len(c.saltPrefix) > 0 {
				enc.w.SetSaltGenerator(fixedSalt(append(append([]byte{}, c.saltPrefix...), payload(G, c.key.EK.SaltSize()-len(c.saltPrefix))...)))
			}
			enc.Lazy(socksAddr(fmt.Sprintf("%s:%d", tgtIP, port)))
			msg := []byte(fmt.Sprintf("hello-from-%d", k))
			writeSegmented(G, cc, enc.Chunk(msg), 3)
			var rdone flag
			simrt.GoNamed("client-reader", func() {
				r := shadowsocks.NewReader(cc, c.key.EK)
				buf := make([]byte, len(msg))
				n := 0
				for n < len(buf) {
					m, err := r.Read(buf[n:])
					n += m
					if err != nil {
						break
					}
				}
				c.echoed = buf[:n]
				rdone.Set()
			})
			// Wait for the echo (authenticated) or give up after the handshake
			// timeout has certainly passed (rejected: nothing comes back).
			rdone.WaitFor(3 * time.Second)
			cc.CloseWrite()
			rdone.Wait()
			readAll(cc)
			cc.Close()
			c.done = true
		})
	}
	simrt.Quiesce()
	rc.Phase = "check"
	for _, c := range conns {
		if !c.done {
			rc.Failf("client-stalled", "conn %d never finished%s", c.k, describeTasks(simrt.Snapshot()))
			continue
		}
		if c.err != nil || c.c == nil {
			rc.Failf("connect-refused", "conn %d: %v", c.k, c.err)
			continue
		}
		recs := srv.M.tcpFor(c.c.Rec.ID)
		if len(recs) != 1 {
			// the reports are how authentication is observed; their multiplicity is C15's claim
			rc.Inconclusive = append(rc.Inconclusive, "open-report-count")
			continue
		}
		r := recs[0]
		resSeq := simrt.Steps()
		if a := r.first("auth"); a != nil {
			resSeq = a.Seq
		} else if p := r.first("probe"); p != nil {
			resSeq = p.Seq
		} else if cl := r.first("closed"); cl != nil {
			resSeq = cl.Seq
		}
		// versions possibly current at some instant of [connect, result]
		var cur []*c01version
		for i, v := range vers {
			if !v.started || v.startSeq > resSeq {
				continue
			}
			// superseded before the connection started?
			if i+1 < len(vers) && vers[i+1].installed && vers[i+1].endSeq < c.connectSeq {
				continue
			}
			cur = append(cur, v)
		}
		inAll, inNone := true, true
		okIDs := map[string]bool{}
		if c.kind == 0 {
			for _, v := range cur {
				if v.has(c.key) {
					inNone = false
					for id := range v.idsFor(c.key) {
						okIDs[id] = true
					}
				} else {
					inAll = false
				}
			}
		} else {
			inAll = false
		}
		auth := r.first("auth")
		closed := r.first("closed")
		dialed := false
		for _, d := range w.Dials {
			if d.Port == 8000+c.k {
				dialed = true
			}
		}
		wroteBack := len(c.c.Peer().Wrote)
		switch {
		case inAll:
			rc.Probe("must_authenticate")
			if auth == nil && freshRefusalExcused(rc, c.key, c.c.Wrote) {
				break
			}
			if auth == nil {
				st := "?"
				if closed != nil {
					st = closed.Status
				}
				rc.Failf("configured-key-rejected", "conn %d from %s: stream valid under %s, configured in every key-list version current during the handshake (%d versions, list size %d), was not authenticated (status %s)",
					c.k, c.ip, c.key, len(cur), len(cur[0].keys), st)
			} else if !okIDs[auth.Key] {
				rc.Failf("wrong-attribution", "conn %d: stream under %s was attributed to id %q, which is not configured with that cipher and secret (acceptable: %v)", c.k, c.key, auth.Key, simrt.SortedKeys(okIDs))
			} else if !dialed {
				// (what the relay then carries is C02's claim)
				rc.Failf("authenticated-but-not-served", "conn %d: reported as authenticated (%q) but its target was never contacted", c.k, auth.Key)
			}
		case inNone:
			rc.Probe("must_reject")
			if auth != nil {
				rc.Failf("unconfigured-authenticated", "conn %d (kind %d): opening bytes valid under no configured key were authenticated as %q", c.k, c.kind, auth.Key)
			}
			if dialed {
				rc.Failf("target-contacted-for-unauthenticated", "conn %d: not valid under any configured key, yet its target was dialed", c.k)
			}
			if wroteBack != 0 {
				rc.Failf("wrote-to-unauthenticated", "conn %d: not valid under any configured key, yet the server wrote %d bytes back", c.k, wroteBack)
			}
		default:
			rc.Probe("either_allowed_due_to_concurrent_update")
			if auth != nil && !okIDs[auth.Key] {
				rc.Failf("wrong-attribution", "conn %d: stream under %s was attributed to id %q (acceptable: %v)", c.k, c.key, auth.Key, simrt.SortedKeys(okIDs))
			}
		}
	}
	srv.Stop()
	simrt.Quiesce()
	rc.Phase = "done"
}

// c01m: the key list as the server builds it from its configuration file (one
// service, one TCP listener, the real main path): every configured key
// authenticates, under an id that is configured with that cipher and secret, and
// a key outside the list does not. The lists have secrets shared between ciphers
// and duplicated entries.
func init() {
	Register(&Scenario{Name: "c01m", Prop: "C01", MaxSteps: 400000, Run: runC01m})
}

func runC01m(rc *RunCtx) {
	G := rc.G
	n := 2 + G.Draw(7)
	keys := genKeys(G, n, "")
	// bias towards the same secret under several ciphers
	if G.Draw(2) == 0 {
		base := keys[G.Draw(len(keys))]
		for i, c := range cipherNames {
			if G.Draw(2) == 0 {
				keys = append(keys, mkKey(fmt.Sprintf("same-secret-%d", i), c, base.Secret))
			}
		}
	}
	// secrets are arbitrary strings: blanks at either end, quotes, a '#', non-ASCII
	if G.Draw(3) == 0 {
		odd := oddSecrets
		for n := 1 + G.Draw(2); n > 0; n-- {
			sec := odd[G.Draw(len(odd))]
			keys = append(keys, mkKey(fmt.Sprintf("odd-secret-%d", n), cipherNames[G.Draw(4)], sec))
		}
		simrt.Probe("secret_with_blanks_or_punctuation")
	}
	for i := len(keys) - 1; i > 0; i-- {
		j := G.Draw(i + 1)
		keys[i], keys[j] = keys[j], keys[i]
	}
	// one id, two key materials in one list is not a shape the statement covers
	var list []*Key
	for _, k := range keys {
		clash := false
		for _, x := range list {
			if x.ID == k.ID && !sameCrypto(x, k) {
				clash = true
			}
		}
		if !clash {
			list = append(list, k)
		}
	}
	addr := "127.0.0.1:9000"
	cfg := &mCfg{Services: []mSvc{{Listeners: []mLn{{"tcp", addr}}, Keys: list}}}
	ms, err := newMainSim(rc, []int{0, 1000}[G.Draw(2)], cfg)
	if err != nil {
		rc.Failf("valid-config-rejected", "a configuration with %d keys failed to load: %v\n%s", len(list), err, cfg.YAML())
		return
	}
	rc.D("keys %v", list)
	outsider := mkKey("outsider", cipherNames[G.Draw(4)], "not-in-the-list")
	// ... or a near miss: a configured secret without its blanks (not in the list
	// unless that very string is configured too)
	for _, k := range list {
		if t := strings.TrimSpace(k.Secret); t != k.Secret && t != "" && G.Draw(2) == 0 {
			cand := mkKey("near-miss", k.Cipher, t)
			if !configured(list, cand) {
				outsider = cand
			}
		}
	}
	nP := 2 + G.Draw(8)
	for p := 0; p < nP; p++ {
		if G.Draw(6) == 0 {
			res := ms.probeTCP(addr, outsider, nil)
			rc.Probe("must_reject")
			if res.authID != "" {
				rc.Failf("unconfigured-authenticated", "a stream under %s, which is not in the list, was authenticated as %q", outsider, res.authID)
			}
			continue
		}
		k := list[G.Draw(len(list))]
		res := ms.probeTCP(addr, k, nil)
		rc.Probe("must_authenticate")
		if res.authID == "" && freshRefusalExcused(rc, k, res.wire) {
			continue
		}
		ok := map[string]bool{}
		for _, x := range list {
			if sameCrypto(x, k) {
				ok[x.ID] = true
			}
		}
		if res.authID == "" {
			rc.Failf("configured-key-rejected", "a stream valid under %s, configured in a list of %d keys, was not authenticated (status %s)\n%s", k, len(list), res.status, cfg.YAML())
		} else if !ok[res.authID] {
			rc.Failf("wrong-attribution", "a stream under %s was attributed to id %q, which is not configured with that cipher and secret (acceptable: %v)", k, res.authID, simrt.SortedKeys(ok))
		}
	}
	rc.Nontrivial = true
	ms.Srv.StopForVerif()
	simrt.Quiesce()
	rc.Phase = "done"
}

// oddSecrets: secrets are arbitrary strings.
var oddSecrets = []string{"trailing blank ", " leading blank", "\ttab and \"quote\"", "hash # colon: dash -", "пароль", "  ",
	"Nf4$Qm8xT1", "pa$$w0rd", "${HOME}x$", "back\\slash \\n", "{{curly}} %d %s", "'single' & <angle>"}
