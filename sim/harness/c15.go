package verifharness

import (
	"fmt"
	"net"
	"sort"
	"time"

	"github.com/Jigsaw-Code/outline-sdk/transport/shadowsocks"
	"github.com/Jigsaw-Code/outline-ss-server/verifrt/simnet"
	"github.com/Jigsaw-Code/outline-ss-server/verifrt/simrt"
	"github.com/prometheus/client_golang/prometheus"
)

// C15 — TCP connection metrics match what happened on the wire.
func init() {
	Register(&Scenario{Name: "c15", Prop: "C15", MaxSteps: 200000, Run: runC15, Post: postC15})
}

type c15conn struct {
	k        int
	cause    string
	want     string // expected status
	auth     bool   // AddAuthenticated expected
	probe    bool   // AddProbe expected
	complete bool   // ran to completion: counters must be exact
	key      *Key
	c        *simnet.TCPConn
	done     bool
	dialPort int // the target port this connection's own dial goes to (0: none expected)
}

var c15causes = []string{"ok", "ok", "cipher", "cipher-idle", "replay-client", "replay-server", "bad-address", "private-address", "connect-fail", "relay-client", "relay-target", "client-abort", "cipher-abort"}

func runC15(rc *RunCtx) {
	G := rc.G
	w := simnet.NewWorld()
	if rc.F.Draw(2) == 1 {
		w.ShortRead = []int{100, 600}[rc.F.Draw(2)]
	}
	keys := genKeys(G, 1+G.Draw(5), "")
	// server-salt marking needs a salt of at least 20 bytes
	prom := newPromMetricsWith(rc, nil)
	m := &RecMetrics{Inner: prom}
	srv := startTCPServer(rc, w, tcpServerOpts{Keys: keys, Replay: 200, Timeout: time.Second, Metrics: m, Debug: rc.F.Draw(3) == 1})
	if rc.F.Draw(4) == 1 {
		w.EOFWithData = []int{300, 1000}[rc.F.Draw(2)] // a target stream's last bytes may arrive together with its end
	}
	rc.PostData = m
	if rc.F.Draw(3) == 1 {
		w.Window = []int{700, 3000}[rc.F.Draw(2)]
		simrt.Fault("tcp_small_window")
	}
	nClients := 1 + G.Draw(3)
	var all []*c15conn
	tgtIP := net.IPv4(93, 184, 216, 34).To4()
	nextK := 0
	for ci := 0; ci < nClients; ci++ {
		ci := ci
		n := 1 + G.Draw(4)
		var script []*c15conn
		for j := 0; j < n; j++ {
			c := &c15conn{k: nextK, cause: c15causes[G.Draw(len(c15causes))], key: keys[G.Draw(len(keys))]}
			if c.cause == "replay-client" && cryptoDup(keys, c.key) {
				// a handshake is (key id, salt): with the same cipher and secret under two
				// ids the second presentation may legitimately be served under the other
				// id, so the replay cause uses a key that is unique in the list
				c.cause = "ok"
				for _, k := range keys {
					if !cryptoDup(keys, k) {
						c.key, c.cause = k, "replay-client"
						break
					}
				}
			}
			nextK++
			if c.cause == "replay-server" && c.key.EK.SaltSize() < 20 {
				c.cause = "cipher"
			}
			script = append(script, c)
			all = append(all, c)
		}
		up := payload(G, []int{0, 10, 3000, 20000}[G.Draw(4)])
		down := payload(G, []int{1, 10, 3000, 20000}[G.Draw(4)])
		clientIP := net.IPv4(198, 18, 4, byte(ci+1)).To4()
		simrt.GoNamed(fmt.Sprintf("c15-client-%d", ci), func() {
			for _, c := range script {
				port := 8000 + c.k
				addr := fmt.Sprintf("%s:%d", tgtIP, port)
				dial := func() *simnet.TCPConn {
					cc, err := srv.connect(clientIP, 23000+c.k*3+G.Draw(1))
					if err != nil {
						panic(err)
					}
					return cc
				}
				// a complete, clean exchange: client sends up and half-closes, target
				// reads to EOF, answers with down and closes
				cleanTarget := func() {
					startTarget(w, tgtIP, port, func(tc *targetConn) {
						buf := make([]byte, 8192)
						for {
							n, err := tc.C.Read(buf)
							tc.Got = append(tc.Got, buf[:n]...)
							if err != nil {
								break
							}
						}
						tc.C.Write(down)
						tc.C.Close()
					})
				}
				clean := func(cc *simnet.TCPConn) (wire []byte) {
					enc := newEncoder(c.key)
					enc.Lazy(socksAddr(addr))
					wire = enc.Chunk(append([]byte("hi"), up...))
					writeSegmented(G, cc, wire, 3)
					cc.CloseWrite()
					r := shadowsocks.NewReader(cc, c.key.EK)
					readAll(r)
					cc.Close()
					return wire
				}
				switch c.cause {
				case "ok":
					c.dialPort = port
					c.want, c.auth, c.complete = "OK", true, true
					cleanTarget()
					c.c = dial()
					clean(c.c)
				case "cipher":
					c.want, c.probe, c.complete = "ERR_CIPHER", true, true
					c.c = dial()
					writeSegmented(G, c.c, payload(G, G.Draw(300)), 3)
					c.c.CloseWrite()
					readAll(c.c)
					c.c.Close()
				case "cipher-idle":
					// a probe that stays silent: the server drains until the handshake
					// timeout and closes first
					c.want, c.probe, c.complete = "ERR_CIPHER", true, true
					c.c = dial()
					writeSegmented(G, c.c, payload(G, G.Draw(300)), 3)
					readAll(c.c)
					c.c.Close()
				case "cipher-abort":
					// a prober that resets its connection while the server is absorbing it:
					// authentication failed all the same, and that is what gets reported
					c.want, c.probe = "ERR_CIPHER", true
					c.c = dial()
					writeSegmented(G, c.c, payload(G, 50+G.Draw(300)), 3)
					simrt.Sleep(time.Duration(1+G.Draw(300)) * time.Millisecond)
					c.c.Abort()
					simrt.Fault("prober_rst_while_absorbed")
				case "replay-client":
					// first presentation is a normal, separate connection
					cleanTarget()
					first := dial()
					wire := clean(first)
					pre := &c15conn{k: -1, cause: "ok(for replay)", want: "OK", auth: true, complete: true, key: c.key, c: first, done: true, dialPort: port}
					all = append(all, pre)
					c.want, c.probe, c.complete = "ERR_REPLAY_CLIENT", true, true
					c.c = dial()
					writeSegmented(G, c.c, wire, 3)
					c.c.CloseWrite()
					readAll(c.c)
					c.c.Close()
				case "replay-server":
					cleanTarget()
					first := dial()
					clean(first)
					pre := &c15conn{k: -1, cause: "ok(for reflection)", want: "OK", auth: true, complete: true, key: c.key, c: first, done: true, dialPort: port}
					all = append(all, pre)
					reflected := append([]byte(nil), first.Peer().Wrote...)
					c.want, c.probe, c.complete = "ERR_REPLAY_SERVER", true, true
					if G.Draw(2) == 0 {
						// the same recording reflected before (the history remembers salts):
						// this one is a reflected replay all the same, and is named so (C08:
						// "refused as a reflected replay")
						again := dial()
						writeSegmented(G, again, reflected, 3)
						again.CloseWrite()
						readAll(again)
						again.Close()
						all = append(all, &c15conn{k: -1, cause: "replay-server(first of two)", want: "ERR_REPLAY_SERVER", probe: true, complete: true, key: c.key, c: again, done: true})
						c.cause = "replay-server(second of two)"
					}
					c.c = dial()
					writeSegmented(G, c.c, reflected, 3)
					c.c.CloseWrite()
					readAll(c.c)
					c.c.Close()
				case "bad-address":
					c.want, c.auth, c.complete = "ERR_READ_ADDRESS", true, true
					c.c = dial()
					enc := newEncoder(c.key)
					writeSegmented(G, c.c, enc.Chunk(append([]byte{9}, payload(G, 20)...)), 3)
					c.c.CloseWrite()
					readAll(c.c)
					c.c.Close()
				case "private-address":
					bad := []string{"10.1.2.3:80", "192.168.0.1:80", "127.0.0.1:80", "[fc00::1]:80", "169.254.0.1:80"}[G.Draw(5)]
					c.want, c.auth, c.complete = "ERR_ADDRESS", true, true
					c.c = dial()
					enc := newEncoder(c.key)
					writeSegmented(G, c.c, enc.Chunk(socksAddr(bad)), 3)
					readAll(c.c) // the server closes quickly on dial errors
					c.c.Close()
				case "connect-fail":
					c.dialPort = port
					c.want, c.auth, c.complete = "ERR_CONNECT", true, true
					c.c = dial()
					enc := newEncoder(c.key)
					writeSegmented(G, c.c, enc.Chunk(socksAddr(addr)), 3) // nobody listens on addr
					readAll(c.c)
					c.c.Close()
				case "relay-client":
					c.dialPort = port
					c.want, c.auth = "ERR_RELAY_CLIENT", true
					startTarget(w, tgtIP, port, func(tc *targetConn) {
						readAll(tc.C)
						tc.C.Close()
					})
					c.c = dial()
					enc := newEncoder(c.key)
					wire := enc.Chunk(socksAddr(addr))
					second := enc.Chunk(payload(G, 100))
					second[len(second)-1] ^= 1
					writeSegmented(G, c.c, append(wire, second...), 3)
					c.c.CloseWrite()
					readAll(c.c)
					c.c.Close()
				case "client-abort":
					// the client dies while the proxy is pushing the target's data to it
					c.dialPort = port
					c.want, c.auth = "ERR_RELAY", true
					big := payload(G, 30000)
					startTarget(w, tgtIP, port, func(tc *targetConn) {
						tc.C.Write(big)
						readAll(tc.C)
						tc.C.Close()
					})
					c.c = dial()
					enc := newEncoder(c.key)
					writeSegmented(G, c.c, enc.Chunk(socksAddr(addr)), 3)
					buf := make([]byte, 1+G.Draw(2000))
					c.c.Read(buf)
					c.c.Abort()
					simrt.Fault("client_rst_midstream")
				case "relay-target":
					c.dialPort = port
					c.want, c.auth = "ERR_RELAY_TARGET", true
					startTarget(w, tgtIP, port, func(tc *targetConn) {
						tc.C.Write(down)
						tc.C.Abort()
					})
					c.c = dial()
					enc := newEncoder(c.key)
					writeSegmented(G, c.c, enc.Chunk(socksAddr(addr)), 3)
					r := shadowsocks.NewReader(c.c, c.key.EK)
					readAll(r) // until the proxy gives up on the target and half-closes
					c.c.CloseWrite()
					readAll(c.c)
					c.c.Close()
				}
				c.done = true
				rc.D("client %d conn %d: %s", ci, c.k, c.cause)
			}
		})
	}
	simrt.Quiesce()
	rc.Phase = "check"
	sort.SliceStable(all, func(i, j int) bool { return all[i].c != nil && all[j].c != nil && all[i].c.Rec.ID < all[j].c.Rec.ID })
	for _, c := range all {
		if !c.done || c.c == nil {
			rc.Failf("client-stalled:"+c.cause, "connection %d (%s) never finished%s", c.k, c.cause, describeTasks(simrt.Snapshot()))
			continue
		}
		rc.Probe("outcome:" + c.cause)
		recs := m.tcpFor(c.c.Rec.ID)
		if len(recs) != 1 {
			rc.Failf("open-report-count", "connection %d (%s) was reported opened %d times", c.k, c.cause, len(recs))
			continue
		}
		r := recs[0]
		if c.auth && r.first("auth") == nil && freshRefusalExcused(rc, c.key, c.c.Wrote) {
			continue
		}
		// closed once; authenticated and probe at most once; authenticated before the close
		var seq []string
		n := map[string]int{}
		idx := map[string]int{}
		for i, cl := range r.Calls {
			seq = append(seq, cl.Kind)
			n[cl.Kind]++
			idx[cl.Kind] = i
		}
		g := fmt.Sprint(seq)
		if n["closed"] != 1 || n["auth"] > 1 || n["probe"] > 1 || (n["auth"] == 1 && idx["auth"] > idx["closed"]) {
			rc.Failf("report-sequence:"+g, "connection %d (%s): reports %v: expected closed once, authenticated and probe at most once, authenticated before closed", c.k, c.cause, seq)
			continue
		}
		cl := r.first("closed")
		if len(cl.Status) < len(c.want) || cl.Status[:len(c.want)] != c.want {
			rc.Failf("status:"+c.cause+":"+cl.Status, "connection %d: injected cause %q should be reported %s*, got %s", c.k, c.cause, c.want, cl.Status)
		}
		if (r.first("auth") != nil) != c.auth {
			rc.Failf("auth-report:"+c.cause, "connection %d (%s): authenticated report present=%v, expected %v", c.k, c.cause, r.first("auth") != nil, c.auth)
		} else if c.auth {
			if a := r.first("auth"); !keyIDsFor(keys, c.key)[a.Key] {
				rc.Failf("auth-report-key", "connection %d: reported key %q, used %s", c.k, a.Key, c.key)
			}
		}
		if (r.first("probe") != nil) != c.probe {
			rc.Failf("probe-report:"+c.cause, "connection %d (%s): probe report present=%v, expected %v", c.k, c.cause, r.first("probe") != nil, c.probe)
		}
		se := c.c.Peer()
		if p := r.first("probe"); p != nil {
			if p.N != se.NRead {
				rc.Failf("probe-bytes", "connection %d (%s): probe report carries %d bytes, server received %d", c.k, c.cause, p.N, se.NRead)
			}
		}
		// byte counters against the ledger
		var tgt *simnet.TCPConn
		for _, d := range w.Dials {
			if c.dialPort != 0 && d.Port == c.dialPort && d.Conn != nil {
				tgt = d.Conn
			}
		}
		type cnt struct {
			name       string
			got, truth int64
		}
		cs := []cnt{{"client->proxy", cl.Data.ClientProxy, se.NRead}, {"proxy->client", cl.Data.ProxyClient, int64(len(se.Wrote))}}
		if tgt != nil {
			cs = append(cs, cnt{"proxy->target", cl.Data.ProxyTarget, int64(len(tgt.Wrote))}, cnt{"target->proxy", cl.Data.TargetProxy, tgt.NRead})
		} else {
			cs = append(cs, cnt{"proxy->target", cl.Data.ProxyTarget, 0}, cnt{"target->proxy", cl.Data.TargetProxy, 0})
		}
		for _, x := range cs {
			if x.got > x.truth {
				rc.Failf("counter-exceeds:"+x.name, "connection %d (%s): %s reported %d bytes, %d actually crossed the socket", c.k, c.cause, x.name, x.got, x.truth)
			} else if c.complete && x.got != x.truth {
				rc.Failf("counter-mismatch:"+x.name, "connection %d (%s, ran to completion): %s reported %d bytes, %d actually crossed the socket", c.k, c.cause, x.name, x.got, x.truth)
			}
		}
	}
	rc.Nontrivial = len(all) > 0
	srv.Stop()
	simrt.Quiesce()
	rc.Phase = "done"
}

func postC15(rc *RunCtx, res *simrt.Result) {
	M, _ := rc.PostData.(*RecMetrics)
	c, _ := rc.Prom.(prometheus.Collector)
	if M == nil || c == nil {
		return
	}
	fams, err := gather(c)
	if err != nil {
		rc.Failf("gather-failed", "Registry.Gather failed: %v", err)
		return
	}
	if got := sumCounter(fams["tcp_connections_opened"], nil); int(got) != len(M.TCP) {
		rc.Failf("gathered-opened", "tcp_connections_opened = %v, %d connections were reported opened", got, len(M.TCP))
	}
	type sk struct{ status, key string }
	closed := map[sk]float64{}
	type kd struct{ key, dir string }
	bytesWant := map[kd]float64{}
	for _, r := range M.TCP {
		cl := r.first("closed")
		if cl == nil {
			continue
		}
		key := ""
		if a := r.first("auth"); a != nil {
			key = a.Key
		}
		closed[sk{cl.Status, key}]++
		bytesWant[kd{key, "c>p"}] += float64(cl.Data.ClientProxy)
		bytesWant[kd{key, "p>t"}] += float64(cl.Data.ProxyTarget)
		bytesWant[kd{key, "p<t"}] += float64(cl.Data.TargetProxy)
		bytesWant[kd{key, "c<p"}] += float64(cl.Data.ProxyClient)
	}
	var cks []sk
	for k := range closed {
		cks = append(cks, k)
	}
	sort.Slice(cks, func(i, j int) bool { return cks[i].status+cks[i].key < cks[j].status+cks[j].key })
	for _, k := range cks {
		if got := sumCounter(fams["tcp_connections_closed"], map[string]string{"status": k.status, "access_key": k.key}); got != closed[k] {
			rc.Failf("gathered-closed", "tcp_connections_closed{status=%s,access_key=%q} = %v, %v were reported", k.status, k.key, got, closed[k])
		}
	}
	tot := 0.0
	for _, v := range closed {
		tot += v
	}
	if got := sumCounter(fams["tcp_connections_closed"], nil); got != tot {
		rc.Failf("gathered-closed-total", "tcp_connections_closed sums to %v, %v were reported", got, tot)
	}
	var bks []kd
	for k := range bytesWant {
		bks = append(bks, k)
	}
	sort.Slice(bks, func(i, j int) bool { return bks[i].key+bks[i].dir < bks[j].key+bks[j].dir })
	for _, k := range bks {
		if got := sumCounter(fams["data_bytes"], map[string]string{"proto": "tcp", "dir": k.dir, "access_key": k.key}); got != bytesWant[k] {
			rc.Failf("gathered-data-bytes:"+k.dir, "data_bytes{proto=tcp,dir=%s,access_key=%q} = %v, closed connections reported %v", k.dir, k.key, got, bytesWant[k])
		}
	}
}

// c15x — connections racing with the shutdown of their listener (a reload that
// drops a port, a stop): whatever happens to them, every connection the server
// accepted is reported opened once and closed once, authentication at most once
// and before the close, and the counters never exceed the wire.
func init() {
	Register(&Scenario{Name: "c15x", Prop: "C15", MaxSteps: 100000, Run: runC15x})
}

func runC15x(rc *RunCtx) {
	G := rc.G
	w := simnet.NewWorld()
	keys := genKeys(G, 1+G.Draw(3), "")
	m := &RecMetrics{Inner: newPromMetricsWith(rc, nil)}
	srv := startTCPServer(rc, w, tcpServerOpts{Keys: keys, Replay: 0, Timeout: 200 * time.Millisecond, Metrics: m, UseSvc: G.Draw(2) == 0, Debug: rc.F.Draw(3) == 1})
	tgtIP := net.IPv4(93, 184, 216, 34).To4()
	startTarget(w, tgtIP, 7000, func(tc *targetConn) {
		buf := make([]byte, 4096)
		for {
			n, err := tc.C.Read(buf)
			if n > 0 {
				tc.C.Write(buf[:n])
			}
			if err != nil {
				break
			}
		}
		tc.C.Close()
	})
	n := 1 + G.Draw(5)
	conns := make([]*simnet.TCPConn, n)
	done := make([]flag, n)
	for i := 0; i < n; i++ {
		i := i
		j := jitter(G)
		probe := G.Draw(4) == 0
		k := keys[G.Draw(len(keys))]
		simrt.GoNamed(fmt.Sprintf("c15x-client-%d", i), func() {
			defer done[i].Set()
			j()
			cc, err := srv.connect(net.IPv4(198, 18, 15, byte(1+i)).To4(), 27000+i)
			if err != nil {
				return // the listener is already closed
			}
			conns[i] = cc
			if probe {
				cc.Write(payload(G, 60))
			} else {
				enc := newEncoder(k)
				enc.Lazy(socksAddr(fmt.Sprintf("%s:7000", tgtIP)))
				cc.Write(enc.Chunk([]byte("ping")))
			}
			cc.CloseWrite()
			readAll(cc)
			cc.Close()
		})
	}
	js := jitter(G)
	simrt.GoNamed("c15x-shutdown", func() {
		js()
		srv.Stop()
		simrt.Probe("listener_closed_while_connections_arrive")
	})
	for i := range done {
		done[i].Wait()
	}
	simrt.Quiesce()
	rc.Phase = "check"
	for i, cc := range conns {
		if cc == nil || !srv.Handled[cc.Rec.ID] {
			continue // refused, left in the backlog, or closed unhandled by the closing listener
		}
		rc.Nontrivial = true
		recs := m.tcpFor(cc.Rec.ID)
		if len(recs) != 1 {
			rc.Failf("open-report-count", "connection %d, accepted while its listener was being closed, was reported opened %d times", i, len(recs))
			continue
		}
		r := recs[0]
		nc, na, ic, ia := 0, 0, -1, -1
		for x, cl := range r.Calls {
			switch cl.Kind {
			case "closed":
				nc++
				ic = x
			case "auth":
				na++
				ia = x
			}
		}
		if nc != 1 || na > 1 || (na == 1 && ia > ic) {
			rc.Failf("report-sequence:shutdown", "connection %d, accepted while its listener was being closed: %d close reports, %d authentication reports (order %d/%d)", i, nc, na, ia, ic)
			continue
		}
		cl := r.first("closed")
		se := cc.Peer()
		if cl.Data.ClientProxy > se.NRead || cl.Data.ProxyClient > int64(len(se.Wrote)) {
			rc.Failf("counter-exceeds:shutdown", "connection %d: reported %d/%d bytes from/to the client, %d/%d crossed the socket", i, cl.Data.ClientProxy, cl.Data.ProxyClient, se.NRead, len(se.Wrote))
		}
	}
	rc.PostData = m
	rc.Phase = "done"
}
