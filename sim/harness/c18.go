package verifharness

import (
	"bytes"
	"context"
	"encoding/binary"
	"fmt"
	"log/slog"
	"net"
	"strings"
	"sync"
	"time"

	"github.com/Jigsaw-Code/outline-sdk/transport/shadowsocks"
	"github.com/Jigsaw-Code/outline-ss-server/verifrt/simnet"
	"github.com/Jigsaw-Code/outline-ss-server/verifrt/simrt"
)

// C18 — no network input can crash the server or leak its resources.
func init() {
	Register(&Scenario{Name: "c18", LivelockIsViolation: true, Prop: "C18", MaxSteps: 400000, Run: runC18, PanicIsViolation: true})
}

// logCapture is a slog handler that keeps warning/error records.
type logCapture struct {
	mu   sync.Mutex
	recs []string
}

func (h *logCapture) Enabled(_ context.Context, l slog.Level) bool { return l >= slog.LevelWarn }
func (h *logCapture) Handle(_ context.Context, r slog.Record) error {
	h.mu.Lock()
	defer h.mu.Unlock()
	s := r.Message
	r.Attrs(func(a slog.Attr) bool { s += " " + a.Key + "=" + a.Value.String(); return true })
	h.recs = append(h.recs, s)
	return nil
}
func (h *logCapture) WithAttrs([]slog.Attr) slog.Handler { return h }
func (h *logCapture) WithGroup(string) slog.Handler      { return h }

// craftStream builds a Shadowsocks stream with arbitrary (possibly invalid)
// length words: each chunk is (announced length, payload actually sealed).
func craftStream(k *Key, salt []byte, chunks [][2][]byte) []byte {
	aead, err := k.EK.NewAEAD(salt)
	if err != nil {
		panic(err)
	}
	nonce := make([]byte, aead.NonceSize())
	inc := func() {
		for i := range nonce {
			nonce[i]++
			if nonce[i] != 0 {
				break
			}
		}
	}
	out := append([]byte(nil), salt...)
	for _, c := range chunks {
		out = aead.Seal(out, nonce, c[0], nil)
		inc()
		out = aead.Seal(out, nonce, c[1], nil)
		inc()
	}
	return out
}

func lenWord(n int) []byte {
	b := make([]byte, 2)
	binary.BigEndian.PutUint16(b, uint16(n))
	return b
}

func runC18(rc *RunCtx) {
	G := rc.G
	F := rc.F
	w := simnet.NewWorld()
	capt := &logCapture{}
	old := slog.Default()
	slog.SetDefault(slog.New(capt))
	defer slog.SetDefault(old)
	if F.Draw(2) == 1 {
		w.ShortRead = []int{100, 600}[F.Draw(2)]
	}
	if F.Draw(3) == 1 {
		w.AcceptErr = []int{100, 400}[F.Draw(2)]
	}
	if F.Draw(3) == 1 {
		w.UDPReadErr = []int{100, 300}[F.Draw(2)]
	}
	if F.Draw(4) == 1 {
		w.UDPWriteErr = 150
	}
	if F.Draw(4) == 1 {
		w.UDPSockErr = 200
	}
	keys := genKeys(G, 1+G.Draw(4), "")
	T := []time.Duration{100 * time.Millisecond, time.Second}[G.Draw(2)]
	tsrv := startTCPServer(rc, w, tcpServerOpts{Keys: keys, Replay: []int{0, 100}[G.Draw(2)], Timeout: T})
	usrv := startUDPServer(rc, w, udpServerOpts{Keys: keys, Timeout: []time.Duration{50 * time.Millisecond, 5 * time.Minute}[G.Draw(2)]})
	tgtIP := net.IPv4(93, 184, 216, 34).To4()
	startTarget(w, tgtIP, 7000, func(tc *targetConn) {
		buf := make([]byte, 8192)
		for {
			n, err := tc.C.Read(buf)
			if n > 0 {
				tc.C.Write(buf[:n])
			}
			if err != nil {
				break
			}
		}
		tc.C.Close()
	})
	utgt, _ := w.BindUDP(&net.UDPAddr{IP: tgtIP, Port: 7001})
	// reply sources of every address shape, including zoned link-local ones
	shapes := []*net.UDPAddr{
		{IP: net.IPv4(151, 101, 1, 69).To4(), Port: 5300},
		{IP: net.ParseIP("2606:2800:220:1::77"), Port: 5301},
		{IP: net.ParseIP("fe80::1234:5678:9abc:def0"), Port: 5353, Zone: "eth0"},
		{IP: net.ParseIP("fe80::1234:5678:9abc:def0"), Port: 5354, Zone: "enp0s31f6"},
		{IP: net.ParseIP("fe80::aaaa:bbbb:cccc:dddd"), Port: 5355, Zone: "wlx00c0ca9876543210abcdef"},
		{IP: net.ParseIP("fe80::1"), Port: 5356, Zone: "x"},
		{IP: net.IPv4(169, 254, 10, 10).To4(), Port: 5357},
	}
	var strangers []*simnet.UDPConn
	for _, a := range shapes {
		s, err := w.BindUDP(a)
		if err != nil {
			panic(err)
		}
		strangers = append(strangers, s)
	}
	replyShape := G.Draw(len(shapes) + 2) // >= len: only the target itself answers
	replySize := []int{0, 1, 100, 1400, 20000, 65000, 65507}[G.Draw(7)]
	simrt.GoDaemon("c18-udp-target", func() {
		buf := make([]byte, 70000)
		for {
			n, from, err := utgt.ReadFromUDP(buf)
			if err != nil {
				return
			}
			utgt.WriteToUDP(buf[:n], from)
			if replyShape < len(strangers) {
				strangers[replyShape].WriteToUDP(payload(G, replySize), from)
				rc.Probe(fmt.Sprintf("reply_from_shape_%d", replyShape))
			}
		}
	})
	addr7000 := socksAddr(fmt.Sprintf("%s:7000", tgtIP))
	// ---- adversarial TCP clients ----
	nT := G.Draw(6)
	for i := 0; i < nT; i++ {
		i := i
		key := keys[G.Draw(len(keys))]
		salt := payload(G, key.EK.SaltSize())
		var wire []byte
		class := ""
		switch G.Draw(12) {
		case 0:
			wire, class = payload(G, G.Draw(400)), "raw"
		case 1: // zero-length domain
			wire, class = craftStream(key, salt, [][2][]byte{{lenWord(4), {3, 0, 0, 80}}}), "zero-length-domain"
		case 2: // 255-byte domain
			d := append([]byte{3, 255}, bytes.Repeat([]byte("a"), 255)...)
			d = append(d, 0, 80)
			wire, class = craftStream(key, salt, [][2][]byte{{lenWord(len(d)), d}}), "255-byte-domain"
		case 3: // unknown address types
			at := []byte{0, 2, 5, 0x80, 0xff}[G.Draw(5)]
			p := append([]byte{at}, payload(G, G.Draw(30))...)
			wire, class = craftStream(key, salt, [][2][]byte{{lenWord(len(p)), p}}), "bad-address-type"
		case 4: // truncated header: address chunk shorter than the address needs
			p := []byte{1, 93, 184}
			wire, class = craftStream(key, salt, [][2][]byte{{lenWord(len(p)), p}}), "truncated-address"
		case 5: // announced length larger than the mask / than what follows
			p := append(append([]byte{}, addr7000...), payload(G, 10)...)
			n := []int{0x4000, 0x7fff, 0xffff, len(p) + 1}[G.Draw(4)]
			wire, class = craftStream(key, salt, [][2][]byte{{lenWord(n), p}}), "oversized-length"
		case 6: // zero-length chunks
			wire, class = craftStream(key, salt, [][2][]byte{{lenWord(0), {}}, {lenWord(0), {}}, {lenWord(len(addr7000)), addr7000}, {lenWord(0), {}}, {lenWord(3), []byte("abc")}}), "zero-length-chunks"
		case 7: // valid address then garbage chunks
			wire = craftStream(key, salt, [][2][]byte{{lenWord(len(addr7000)), addr7000}})
			wire, class = append(wire, payload(G, 1+G.Draw(3000))...), "garbage-after-address"
		case 8: // domain that does not resolve / resolves to nothing
			d := append([]byte{3, 9}, []byte("nxdomain.")...)
			d = append(d, 0, 80)
			wire, class = craftStream(key, salt, [][2][]byte{{lenWord(len(d)), d}}), "unresolvable-domain"
		case 9: // port 0 and odd literals
			d := []byte{1, 93, 184, 216, 34, 0, 0}
			wire, class = craftStream(key, salt, [][2][]byte{{lenWord(len(d)), d}}), "port-zero"
		case 10: // maximum-size chunk
			p := append(append([]byte{}, addr7000...), payload(G, 0x3fff-len(addr7000))...)
			wire, class = craftStream(key, salt, [][2][]byte{{lenWord(len(p)), p}}), "max-chunk"
		default: // header only, then silence
			wire, class = craftStream(key, salt, nil), "salt-only"
		}
		term := G.Draw(4)
		rc.D("tcp client %d: %s (%d bytes), termination %d", i, class, len(wire), term)
		rc.Probe("tcp_input:" + class)
		simrt.GoNamed(fmt.Sprintf("c18-tcp-%d", i), func() {
			cc, err := tsrv.connect(net.IPv4(198, 18, 40, byte(i+1)).To4(), 36000+i)
			if err != nil {
				return
			}
			writeSegmented(G, cc, wire, 4)
			switch term {
			case 0:
				cc.CloseWrite()
				readAll(cc)
				cc.Close()
			case 1:
				cc.Abort()
			case 2:
				cc.Close()
			default:
				var end flag
				simrt.GoNamed("c18-reader", func() { readAll(cc); end.Set() })
				end.WaitFor(3 * T)
				cc.Close()
			}
		})
	}
	// ---- adversarial UDP clients ----
	nU := G.Draw(6)
	for i := 0; i < nU; i++ {
		i := i
		key := keys[G.Draw(len(keys))]
		sock, _ := w.BindUDP(&net.UDPAddr{IP: net.IPv4(198, 18, 41, byte(i+1)).To4(), Port: 37000 + i})
		n := 1 + G.Draw(4)
		var wires [][]byte
		for k := 0; k < n; k++ {
			var plain []byte
			switch G.Draw(8) {
			case 0:
				wires = append(wires, payload(G, G.Draw(200)))
				continue
			case 1:
				plain = []byte{3, 0, 0, 53}
			case 2:
				plain = append([]byte{3, 255}, bytes.Repeat([]byte("b"), 255)...)
				plain = append(plain, 0, 53)
			case 3:
				plain = []byte{4, 1, 2, 3}
			case 4:
				plain = []byte{}
			case 5:
				plain = append([]byte{9}, payload(G, 20)...)
			default:
				plain = append(socksAddr(fmt.Sprintf("%s:7001", tgtIP)), payload(G, []int{0, 10, 1400, 60000}[G.Draw(4)])...)
			}
			if len(plain) > 65400 {
				plain = plain[:65400]
			}
			wires = append(wires, packUDP(key, plain))
		}
		simrt.GoNamed(fmt.Sprintf("c18-udp-%d", i), func() {
			for _, wr := range wires {
				sock.WriteToUDP(wr, &net.UDPAddr{IP: proxyIP, Port: 9000})
				if G.Draw(2) == 0 {
					simrt.Sleep(time.Duration(G.Draw(3)) * time.Millisecond)
				}
			}
			simrt.Sleep(5 * time.Millisecond)
			sock.Close()
		})
	}
	// A UDP bystander: one association with a reply on its way while another
	// datagram of the same client cannot be forwarded (destination port 0: the
	// send fails). The failure of one datagram must not cost the other its reply.
	var uby struct {
		run, done, got bool
	}
	if w.UDPWriteErr == 0 && w.UDPSockErr == 0 && w.UDPReadErr == 0 && usrv.Timeout > time.Second {
		uby.run = true
		slow, _ := w.BindUDP(&net.UDPAddr{IP: tgtIP, Port: 7002})
		simrt.GoDaemon("c18-udp-slow-target", func() {
			buf := make([]byte, 2048)
			for {
				n, from, err := slow.ReadFromUDP(buf)
				if err != nil {
					return
				}
				p := append([]byte(nil), buf[:n]...)
				simrt.After(20*time.Millisecond, func() { simrt.S_spawn(func() { slow.WriteToUDP(p, from) }) })
			}
		})
		k := keys[0]
		simrt.GoNamed("c18-udp-bystander", func() {
			defer func() { uby.done = true }()
			cs, err := w.BindUDP(&net.UDPAddr{IP: net.IPv4(198, 18, 42, 7).To4(), Port: 38200})
			if err != nil {
				return
			}
			defer cs.Close()
			to := &net.UDPAddr{IP: proxyIP, Port: 9000}
			cs.WriteToUDP(packUDP(k, append(socksAddr(fmt.Sprintf("%s:7002", tgtIP)), []byte("udp-bystander")...)), to)
			simrt.Sleep(5 * time.Millisecond)
			cs.WriteToUDP(packUDP(k, append(socksAddr(fmt.Sprintf("%s:0", tgtIP)), []byte("undeliverable")...)), to)
			cs.SetReadDeadline(simrt.NowNoTick().Add(200 * time.Millisecond))
			buf := make([]byte, 2048)
			for {
				n, _, err := cs.ReadFromUDP(buf)
				if err != nil {
					return
				}
				if pl, err := shadowsocks.Unpack(nil, buf[:n], k.EK); err == nil && strings.HasSuffix(string(pl), "udp-bystander") {
					uby.got = true
					return
				}
			}
		})
	}
	// A bystander: a well-behaved relay that runs while the adversarial clients do
	// their worst. "A failure while handling one connection never affects others":
	// once it is being served (first echo received) it must run to completion,
	// whatever happens to the others and to the listener.
	var by struct {
		done, served, ok bool
		got              []string
	}
	{
		gaps := []time.Duration{time.Duration(G.Draw(5)) * time.Millisecond, time.Duration(G.Draw(300)) * time.Millisecond, time.Duration(G.Draw(3)) * time.Second}
		simrt.GoNamed("c18-bystander", func() {
			defer func() { by.done = true }()
			cc, err := tsrv.connect(net.IPv4(198, 18, 42, 9).To4(), 38500)
			if err != nil {
				return
			}
			k := keys[0]
			enc := newEncoder(k)
			enc.Lazy(addr7000)
			rd := shadowsocks.NewReader(cc, k.EK)
			by.ok = true
			for i, gap := range gaps {
				msg := fmt.Sprintf("bystander-%d", i)
				cc.Write(enc.Chunk([]byte(msg)))
				buf := make([]byte, len(msg))
				n := 0
				for n < len(buf) {
					m, err := rd.Read(buf[n:])
					n += m
					if err != nil {
						break
					}
				}
				by.got = append(by.got, string(buf[:n]))
				if string(buf[:n]) != msg {
					by.ok = false
					break
				}
				by.served = true
				simrt.Sleep(gap)
			}
			cc.CloseWrite()
			readAll(cc)
			cc.Close()
		})
	}
	// In a quarter of the runs the listeners are shut down while the clients are
	// still active (every order of connection termination and listener shutdown).
	earlyStop := G.Draw(4) == 0
	if earlyStop {
		d := time.Duration(G.Draw(4)) * time.Millisecond
		ny := G.Draw(20)
		simrt.GoNamed("c18-early-shutdown", func() {
			simrt.Sleep(d)
			for i := 0; i < ny; i++ {
				simrt.Yield()
			}
			tsrv.Stop()
			usrv.Stop()
		})
		simrt.Probe("shutdown_during_traffic")
	}
	simrt.Quiesce()
	// ---- others are unaffected: the bystander, then a clean connection and datagram ----
	if !by.done {
		rc.Failf("bystander-stalled", "a well-behaved relay running next to the adversarial clients never finished (echoes so far %q)%s", by.got, describeTasks(simrt.Snapshot()))
	} else if by.served && !by.ok && !earlyStop { // (a relay outliving its listener is C11's claim)
		rc.Failf("bystander-relay-broken", "a well-behaved relay running next to the adversarial clients was being served and then broke (echoes %q)", by.got)
	} else if by.served {
		rc.Probe("bystander_relay_completed")
	}
	if uby.run && !earlyStop {
		if !uby.done {
			rc.Failf("udp-bystander-stalled", "the UDP bystander never finished")
		} else if !uby.got {
			rc.Failf("udp-bystander-reply-lost", "a datagram that could not be forwarded (destination port 0) cost another datagram of the same client its reply")
		} else {
			rc.Probe("udp_bystander_reply_delivered")
		}
	}
	rc.Phase = "canary"
	key := keys[0]
	canaryOK := earlyStop
	for attempt := 0; attempt < 8 && !canaryOK; attempt++ { // transient accept errors may be injected
		cc, err := tsrv.connect(net.IPv4(198, 18, 42, 1).To4(), 38000+attempt)
		if err != nil {
			break
		}
		enc := newEncoder(key)
		enc.Lazy(addr7000)
		cc.Write(enc.Chunk([]byte("canary")))
		rd := shadowsocks.NewReader(cc, key.EK)
		buf := make([]byte, 6)
		n := 0
		for n < 6 {
			m, err := rd.Read(buf[n:])
			n += m
			if err != nil {
				break
			}
		}
		cc.CloseWrite()
		readAll(cc)
		cc.Close()
		canaryOK = string(buf[:n]) == "canary"
	}
	if !canaryOK {
		rc.Failf("listener-stopped-serving:tcp", "after the adversarial inputs a clean TCP connection is no longer served")
	}
	if !earlyStop && w.UDPWriteErr == 0 && w.UDPSockErr == 0 && w.UDPReadErr == 0 {
		cs, _ := w.BindUDP(&net.UDPAddr{IP: net.IPv4(198, 18, 42, 2).To4(), Port: 38100})
		plain := append(socksAddr(fmt.Sprintf("%s:7001", tgtIP)), []byte("canary")...)
		cs.WriteToUDP(packUDP(key, plain), &net.UDPAddr{IP: proxyIP, Port: 9000})
		cs.SetReadDeadline(simrt.NowNoTick().Add(20 * time.Millisecond))
		buf := make([]byte, 2048)
		ok := false
		for tries := 0; tries < 3 && !ok; tries++ {
			n, _, err := cs.ReadFromUDP(buf)
			if err != nil {
				break
			}
			if pl, err := shadowsocks.Unpack(nil, buf[:n], key.EK); err == nil && strings.HasSuffix(string(pl), "canary") {
				ok = true
			}
		}
		cs.Close()
		if !ok {
			rc.Failf("listener-stopped-serving:udp", "after the adversarial inputs a clean UDP datagram is no longer relayed")
		}
	}
	// ---- shutdown: everything the server created must be gone ----
	rc.Phase = "shutdown"
	if !earlyStop {
		tsrv.Stop()
		usrv.Stop()
	}
	utgt.Close()
	for _, s := range strangers {
		s.Close()
	}
	simrt.Quiesce()
	rc.Nontrivial = true
	for _, l := range capt.recs {
		if strings.Contains(l, "the code under test ended the process") {
			rc.Failf("process-exit-on-network-input", "the server called os.Exit / log.Fatal while handling network input: %s", l)
		} else if strings.Contains(l, "Panic in") {
			rc.Failf("recovered-panic-logged", "the server recovered from a panic while handling network input: %s", l)
		}
	}
	if !tsrv.Served {
		rc.Failf("streamserve-never-returned", "the stream listener was closed and all peers are gone but StreamServe has not returned%s", describeTasks(simrt.Snapshot()))
	} else if tsrv.handlersAtReturn > 0 {
		rc.Failf("streamserve-returned-before-handlers", "StreamServe returned while %d connection handlers were still running", tsrv.handlersAtReturn)
	} else if tsrv.handlersAfter > 0 {
		rc.Failf("handler-started-after-streamserve-returned", "%d connection handlers were entered after StreamServe had returned: serving had not stopped when it said so", tsrv.handlersAfter)
	}
	if !usrv.Done {
		rc.Failf("packet-handler-never-returned", "the packet listener was closed but PacketHandler.Handle has not returned%s", describeTasks(simrt.Snapshot()))
	}
	for _, t := range simrt.Snapshot() {
		if t.Kind == "repo" {
			rc.Failf("leak:task:"+funcOf(t.Where), "after all connections ended and the listeners were closed a server goroutine is still alive: %s", describeTasks([]simrt.TaskInfo{t}))
		}
	}
	for _, s := range w.OpenUDP(true) {
		rc.Failf("leak:udp-socket", "after shutdown the server still has UDP socket %v open", s.LocalAddr())
	}
	for _, c := range w.Conns {
		for side, e := range c.Ends {
			// endpoints owned by the server: accepted client connections (side 1 of conns to the proxy)
			// and outbound connections to targets (side 0 of conns dialed by the proxy)
			la := e.LocalAddr().(*net.TCPAddr)
			owned := (side == 1 && la.Port == 9000 && la.IP.Equal(proxyIP)) || (side == 0 && la.IP.Equal(w.HostIP4))
			if owned && !e.IsClosed() {
				rc.Failf("leak:tcp-connection", "after shutdown the server still holds TCP connection %v<->%v open", e.LocalAddr(), e.RemoteAddr())
			}
		}
	}
	rc.Phase = "done"
}

// c18m — the adversarial traffic (and the UDP expiry run shape) in a race
// build; only unsynchronised concurrent map accesses are reported (the driver
// filters the detector's reports): in production the Go runtime aborts the
// process on them, which is a crash that no recover() catches.
func init() {
	Register(&Scenario{Name: "c18m", Prop: "C18", MaxSteps: 400000, Run: func(rc *RunCtx) {
		switch rc.G.Draw(3) {
		case 0:
			runC14(quiet(rc))
		case 1:
			runUDP(quiet(rc), "c03")
		default:
			runC18(quiet(rc))
		}
	}})
}
