package verifharness

import (
	"fmt"

	"github.com/Jigsaw-Code/outline-ss-server/service"
	"github.com/Jigsaw-Code/outline-ss-server/verifrt/simrt"
)

// C07 (component part) — a handshake is accepted at most once within the replay history.
func init() {
	Register(&Scenario{Name: "c07c", Prop: "C07", MaxSteps: 400000, Run: func(rc *RunCtx) { runC07c(rc, false) }})
}

type c07call struct {
	inv, ret int
	task     int
	hs       int // handshake index in the run's table
	resize   int // >=0: this is a Resize(resize) call
	res      bool
	pos      int // index in the log
}

type c07hs struct {
	id   string
	salt []byte
}

// runC07c drives ReplayCache.Add/Resize from several tasks and checks the
// "most recent N" specification. With race=true it is also the C19 workload.
func runC07c(rc *RunCtx, race bool) {
	G := rc.G
	caps := []int{0, 1, 2, 3, 5, 10, 50, 300, 20000}
	initial := caps[G.Draw(len(caps))]
	cache := service.NewReplayCache(initial)
	stamp := 0
	var log []*c07call
	var hss []*c07hs
	idFmt := []string{"key-%d", "%d", "user-1%d", "k%d"}[G.Draw(4)]
	newHS := func(task int) int {
		sz := []int{32, 24, 16}[G.Draw(3)]
		hss = append(hss, &c07hs{id: fmt.Sprintf(idFmt, G.Draw(3)), salt: payload(G, sz)})
		return len(hss) - 1
	}
	// twin: the salt of handshake o under another access key: a different
	// handshake, never seen before (unless that very pair exists already)
	twin := func(o int) int {
		first := G.Draw(2)
	alt:
		for d := 0; d < 2; d++ {
			id := fmt.Sprintf(idFmt, (int(hss[o].id[len(hss[o].id)-1]-'0')+1+(first+d)%2)%3)
			for _, x := range hss {
				if x.id == id && string(x.salt) == string(hss[o].salt) {
					continue alt
				}
			}
			hss = append(hss, &c07hs{id: id, salt: hss[o].salt})
			return len(hss) - 1
		}
		return -1
	}
	add := func(task, h int) *c07call {
		c := &c07call{task: task, hs: h, resize: -1, pos: len(log)}
		stamp++
		c.inv = stamp
		log = append(log, c)
		c.res = cache.Add(hss[h].id, hss[h].salt)
		stamp++
		c.ret = stamp
		return c
	}
	var resizes []*c07call
	resize := func(n int) {
		c := &c07call{task: -1, resize: n}
		stamp++
		c.inv = stamp
		resizes = append(resizes, c)
		cache.Resize(n)
		stamp++
		c.ret = stamp
	}
	// capacity possibly in force during (from, to): conservative minimum
	minCap := func(from, to int) int {
		m := -1
		supersededInitial := false
		for _, r := range resizes {
			if r.ret != 0 && r.ret < from {
				supersededInitial = true
			}
		}
		if !supersededInitial {
			m = initial
		}
		for _, r := range resizes {
			if r.inv >= to {
				continue
			}
			sup := false
			for _, r2 := range resizes {
				if r.ret != 0 && r.ret < r2.inv && r2.ret != 0 && r2.ret < from {
					sup = true
				}
			}
			if sup {
				continue
			}
			if m < 0 || r.resize < m {
				m = r.resize
			}
		}
		return m
	}
	nTasks := 1 + G.Draw(3)
	nOps := 5 + G.Draw(60)
	long := G.Draw(6) == 0
	if long {
		nTasks = 1
		nOps = 200 + G.Draw(3000)
		if rc.Tier == "thorough" && G.Draw(3) == 0 {
			nOps = 20000 + G.Draw(30000)
		}
	}
	withResize := G.Draw(2) == 0
	rc.D("initial capacity %d, %d tasks x %d ops, resize=%v", initial, nTasks, nOps, withResize)
	done := 0
	for t := 0; t < nTasks; t++ {
		t := t
		simrt.GoNamed(fmt.Sprintf("adder-%d", t), func() {
			var mine []int             // handshakes this task presented, in order
			last := map[int]*c07call{} // latest call per handshake
			for k := 0; k < nOps; k++ {
				var h int
				fresh := len(mine) == 0 || G.Draw(3) != 0
				isTwin := false
				if fresh && len(hss) > 0 && G.Draw(4) == 0 {
					if tw := twin(G.Draw(len(hss))); tw >= 0 {
						h, isTwin = tw, true
						rc.Probe("same_salt_under_another_key")
					} else {
						h = newHS(t)
					}
				} else if fresh {
					h = newHS(t)
				} else {
					// re-present one from a distance biased to the boundary of the window
					curCap := initial
					if len(resizes) > 0 {
						curCap = resizes[len(resizes)-1].resize
					}
					back := 1 + G.Draw(len(mine))
					switch G.Draw(5) {
					case 0:
						back = curCap
					case 1:
						back = curCap + 1
					case 2:
						back = curCap + 2
					case 3:
						back = 2*curCap + 1
					}
					if back < 1 {
						back = 1
					}
					if back > len(mine) {
						back = len(mine)
					}
					h = mine[len(mine)-back]
				}
				c := add(t, h)
				prev := last[h]
				last[h] = c
				mine = append(mine, h)
				if prev == nil {
					if !c.res {
						// never seen before: only a 32-bit checksum collision excuses a refusal
						m := minCap(0, c.ret)
						maxEver := initial
						for _, r := range resizes {
							if r.resize > maxEver {
								maxEver = r.resize
							}
						}
						if maxEver == 0 {
							rc.Failf("fresh-refused-with-cache-disabled", "a never-seen handshake was refused although the history size was 0 throughout")
							continue
						}
						var r2, r3 *c07call
						if isTwin {
							// was it the shared salt? two more pairs of the same construction
							for _, rp := range []**c07call{&r2, &r3} {
								a := add(t, newHS(t))
								mine = append(mine, a.hs)
								last[a.hs] = a
								tw := twin(a.hs)
								if tw < 0 { // (other tasks took both twins meanwhile)
									tw = newHS(t)
									isTwin = false
								}
								*rp = add(t, tw)
							}
						} else {
							r2 = add(t, newHS(t))
							r3 = add(t, newHS(t))
						}
						mine = append(mine, r2.hs, r3.hs)
						last[r2.hs], last[r3.hs] = r2, r3
						if !r2.res && !r3.res && isTwin {
							rc.Failf("fresh-handshakes-refused:same-salt-other-key", "three never-seen handshakes in a row, each carrying a salt that had been seen under ANOTHER access key, were refused (capacity >= %d): the history confuses handshakes of different keys; 32-bit checksum collisions do not explain it", m)
						} else if !r2.res && !r3.res {
							rc.Failf("fresh-handshakes-refused", "three never-seen handshakes in a row were refused (capacity >= %d): not explainable by 32-bit checksum collisions", m)
						} else {
							rc.Probe("single_fresh_refusal_excused_as_collision")
						}
					}
					continue
				}
				// number of other checks that may have been made between prev and c
				between := 0
				if nTasks == 1 {
					between = c.pos - prev.pos - 1 // sequential history
				} else {
					for _, o := range log {
						if o != c && o != prev && o.inv < c.ret && (o.ret == 0 || o.ret > prev.inv) {
							between++
						}
					}
				}
				m := minCap(prev.inv, c.ret)
				// prev is among the most recent m checks iff fewer than m others lie between
				if m > 0 && between < m {
					rc.Probe("replay_within_window")
					if between == m-1 {
						rc.Probe("replay_exactly_at_window_edge")
					}
					if c.res {
						rc.Failf("replay-accepted-within-history", "handshake (%s, %d-byte salt) presented again after at most %d other checks was accepted, with a history of at least %d in force (initial %d, resizes %v)",
							hss[h].id, len(hss[h].salt), between, m, initial, func() []int {
								var o []int
								for _, r := range resizes {
									o = append(o, r.resize)
								}
								return o
							}())
					}
				} else {
					rc.Probe("replay_outside_window_either")
				}
			}
			done++
		})
	}
	if withResize {
		simrt.GoNamed("resizer", func() {
			n := 1 + G.Draw(4)
			for i := 0; i < n; i++ {
				for y := G.Draw(40); y > 0; y-- {
					simrt.Yield()
				}
				resize(caps[G.Draw(len(caps))])
			}
		})
	}
	simrt.Quiesce()
	if done != nTasks {
		rc.Failf("adder-stalled", "Add/Resize calls did not return%s", describeTasks(simrt.Snapshot()))
		return
	}
	rc.Nontrivial = true
	rc.PostData = &c07hist{initial: initial, calls: log, resizes: resizes}
	// ---- concurrent copies of one handshake: exactly one is served ----
	rc.Phase = "concurrent-copies"
	c2 := []int{1, 2, 10, 1000}[G.Draw(4)]
	cache2 := service.NewReplayCache(c2)
	for i := G.Draw(5); i > 0; i-- {
		cache2.Add("warm", payload(G, 32))
	}
	k := 2 + G.Draw(4)
	salt := payload(G, 32)
	wins := 0
	fin := 0
	for i := 0; i < k; i++ {
		simrt.GoNamed(fmt.Sprintf("copy-%d", i), func() {
			if cache2.Add("key-x", salt) {
				wins++
			}
			fin++
		})
	}
	simrt.Quiesce()
	if fin == k && wins != 1 {
		rc.Failf(fmt.Sprintf("concurrent-copies-winners:%d", minInt(wins, 2)), "%d concurrent presentations of one handshake (capacity %d): %d were accepted, exactly one must be", k, c2, wins)
	}
	rc.Probe("concurrent_copies")
	rc.Phase = "done"
}
