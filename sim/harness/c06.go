package verifharness

import (
	"fmt"
	"net"
	"time"

	"github.com/Jigsaw-Code/outline-sdk/transport/shadowsocks"
	"github.com/Jigsaw-Code/outline-ss-server/verifrt/simnet"
	"github.com/Jigsaw-Code/outline-ss-server/verifrt/simrt"
)

// C06 — unauthenticated TCP input is absorbed silently until the timeout.
func init() {
	Register(&Scenario{Name: "c06", Prop: "C06", MaxSteps: 100000, Tick: true, Run: runC06})
}

type c06probe struct {
	k        int
	desc     string
	class    string // offset/content class, part of violation signatures
	wire     []byte
	behav    int    // 0 idle forever, 1 FIN at tf, 2 trickle garbage until shortly before the deadline then idle
	finFrac  int    // tf = T*finFrac/10
	auth     bool   // ground truth: the opening bytes authenticate
	postAuth string // "", "bad-address", "bad-chunk", "incomplete"
	needsTgt bool
	// tgtReset: the target resets its connection while the proxy drains the
	// client (bad-chunk probes only); tgtResetAt: when (-1: not yet)
	tgtReset   bool
	tgtResetAt time.Duration
	replayOf   int // index of an earlier probe whose bytes are replayed (-1 none)
	reflect    bool
	nextTrue   int // for truncated streams: the byte the valid stream would continue with (-1 none)
	key        *Key

	c         *simnet.TCPConn
	connectAt time.Duration
	sent      int
	lastWrite time.Duration
	finAt     time.Duration
	didFin    bool
	done      bool
	writeErr  error
}

// chunk layout helper: returns wire bytes and the offsets of interest.
type c06layout struct {
	wire                                         []byte
	salt, lenEnd, lenTagEnd, pay1End, pay1TagEnd int
}

func c06valid(k *Key, first []byte, more [][]byte) c06layout {
	enc := newEncoder(k)
	w := enc.Chunk(first)
	S := k.EK.SaltSize()
	l := c06layout{salt: S, lenEnd: S + 2, lenTagEnd: S + 18, pay1End: S + 18 + len(first), pay1TagEnd: S + 18 + len(first) + 16}
	for _, m := range more {
		w = append(w, enc.Chunk(m)...)
	}
	l.wire = w
	return l
}

func runC06(rc *RunCtx) {
	G := rc.G
	w := simnet.NewWorld()
	if rc.F.Draw(2) == 1 {
		w.ShortRead = []int{100, 500}[rc.F.Draw(2)]
	}
	keys := genKeys(G, 1+G.Draw(8), "")
	replayOn := G.Draw(2) == 1
	T := []time.Duration{50 * time.Millisecond, time.Second, 7 * time.Second, 59 * time.Second}[G.Draw(4)]
	useSvc := T == 59*time.Second && G.Draw(2) == 0
	rsz := 0
	if replayOn {
		rsz = 100
	}
	srv := startTCPServer(rc, w, tcpServerOpts{Keys: keys, Replay: rsz, Timeout: T, UseSvc: useSvc, Debug: rc.F.Draw(3) == 1})
	nP := 1 + G.Draw(4)
	probes := make([]*c06probe, nP)
	tgtIP := net.IPv4(93, 184, 216, 34).To4()
	for k := range probes {
		p := &c06probe{k: k, replayOf: -1, nextTrue: -1}
		key := keys[G.Draw(len(keys))]
		p.key = key
		addr := socksAddr(fmt.Sprintf("%s:%d", tgtIP, 8000+k))
		p.behav = G.Draw(3)
		p.finFrac = G.Draw(10)
		kind := G.Draw(8)
		if kind == 6 && !(replayOn && k > 0) {
			kind = 0
		}
		if kind == 7 && key.EK.SaltSize() < 20 {
			kind = 0 // server salts of 16-byte-salt ciphers are not marked
		}
		switch kind {
		case 0: // random bytes
			L := []int{0, 1, 2, 17, 49, 50, 51, 73, 91, 200, 1000, 16500, 50000}[G.Draw(13)]
			p.wire = payload(G, L)
			p.class = "random"
			p.desc = fmt.Sprintf("random %d bytes", L)
		case 1: // truncated valid stream
			lay := c06valid(key, append(append([]byte{}, addr...), payload(G, 1+G.Draw(100))...), [][]byte{payload(G, 1+G.Draw(2000))})
			cuts := []int{0, lay.salt - 1, lay.salt, lay.lenEnd, lay.lenTagEnd - 1, lay.lenTagEnd, 49, 50, lay.pay1End, lay.pay1TagEnd - 1}
			cut := cuts[G.Draw(len(cuts))]
			if cut > len(lay.wire) {
				cut = len(lay.wire)
			}
			p.wire = lay.wire[:cut]
			if cut < len(lay.wire) {
				p.nextTrue = int(lay.wire[cut])
			}
			p.class = "truncated"
			// The server needs 50 bytes before it tries any key.
			if cut >= 50 {
				p.auth = true
				p.postAuth = "incomplete"
			} else if cut >= lay.lenTagEnd && p.behav == 2 {
				// the trickled garbage completes the 50 bytes: the intact header
				// authenticates, then the address chunk fails
				p.auth = true
				p.postAuth = "bad-address"
			}
			p.desc = fmt.Sprintf("valid stream (%s) truncated at %d of %d", key.Cipher, cut, len(lay.wire))
		case 2: // single bit flip before the end of the length tag: never authenticates
			lay := c06valid(key, append(append([]byte{}, addr...), payload(G, 1+G.Draw(100))...), [][]byte{payload(G, 1+G.Draw(2000))})
			var off int
			switch G.Draw(3) {
			case 0:
				off = G.Draw(lay.salt)
				p.class = "flip-salt"
			case 1:
				off = lay.salt + G.Draw(2)
				p.class = "flip-length"
			default:
				off = lay.lenEnd + G.Draw(16)
				p.class = "flip-length-tag"
			}
			p.wire = append([]byte{}, lay.wire...)
			p.wire[off] ^= 1 << uint(G.Draw(8))
			p.desc = fmt.Sprintf("valid stream (%s) with bit flip at %d (%s)", key.Cipher, off, p.class)
		case 3: // bit flip in the address chunk's payload or tag: authenticates, then the address cannot be read
			first := append(append([]byte{}, addr...), payload(G, 1+G.Draw(100))...)
			lay := c06valid(key, first, nil)
			off := lay.lenTagEnd + G.Draw(len(first)+16)
			p.wire = append([]byte{}, lay.wire...)
			p.wire[off] ^= 1 << uint(G.Draw(8))
			p.auth = true
			p.postAuth = "bad-address"
			p.class = "flip-address-chunk"
			p.desc = fmt.Sprintf("valid header, bit flip at %d in the address chunk (%s)", off, key.Cipher)
		case 4: // authenticated stream with an unparseable address header
			bad := []byte{[]byte{0, 2, 5, 9, 0x7f, 0xff}[G.Draw(6)]}
			bad = append(bad, payload(G, G.Draw(40))...)
			lay := c06valid(key, bad, nil)
			p.wire = lay.wire
			p.auth = true
			p.postAuth = "bad-address"
			p.class = "bad-address-type"
			p.desc = fmt.Sprintf("authenticated stream with address type %d", bad[0])
		case 5: // valid header+address, a later chunk fails authentication (relay already running)
			first := append(append([]byte{}, addr...), payload(G, G.Draw(50))...)
			second := payload(G, 1+G.Draw(3000))
			lay := c06valid(key, first, [][]byte{second})
			off := lay.pay1TagEnd + G.Draw(len(lay.wire)-lay.pay1TagEnd)
			p.wire = append([]byte{}, lay.wire...)
			p.wire[off] ^= 1 << uint(G.Draw(8))
			p.auth = true
			p.postAuth = "bad-chunk"
			p.needsTgt = true
			p.class = "flip-later-chunk"
			p.desc = fmt.Sprintf("valid header and address, bit flip at %d in a later chunk", off)
		case 7: // real server output of an earlier connection, presented back (replay cache on or off)
			p.class = "reflected"
			p.reflect = true
			p.desc = fmt.Sprintf("reflected server output (%s)", key.Cipher)
		case 6: // replay of an earlier probe's bytes (only meaningful if that one authenticated)
			p.replayOf = G.Draw(k)
			p.class = "replay"
			p.desc = fmt.Sprintf("replay of probe %d", p.replayOf)
		}
		probes[k] = p
		rc.D("probe %d: %s; client behaviour %d (finFrac %d); T=%v replay=%v svc=%v", k, p.desc, p.behav, p.finFrac, T, replayOn, useSvc)
	}
	// resolve replays: a replay of an authenticated handshake is refused (cache on); anything else behaves like its source
	for _, p := range probes {
		if p.replayOf >= 0 {
			src := probes[p.replayOf]
			for src.replayOf >= 0 {
				src = probes[src.replayOf]
			}
			if src.class == "truncated" {
				// whether a truncated stream authenticates depends on what each client
				// sends afterwards; keep replays to sources with a fixed verdict
				p.replayOf = -1
				p.wire = payload(G, 60)
				p.class = "random"
				p.desc = "random 60 bytes (instead of replaying a truncated stream)"
				continue
			}
			p.wire = src.wire
			p.key = src.key
			if src.auth {
				p.auth = false // second presentation: refused as a replay, handled like a probe
				p.class = "replay-of-" + src.class
			} else {
				p.class = "replay-of-unauth-" + src.class
			}
		}
	}
	// sink target: never writes, closes when it sees EOF
	// (a third of them answer the end of the stream with a reset instead of a
	// close: whatever happens on the target's side, the client's side is drained)
	for k, p := range probes {
		if p.auth {
			p := p
			rst := G.Draw(3) == 0
			wait := time.Duration(G.Draw(4)) * T / 40
			p.tgtResetAt = -1
			if p.postAuth == "bad-chunk" && p.replayOf < 0 && G.Draw(3) == 0 {
				p.tgtReset = true
			}
			startTarget(w, tgtIP, 8000+k, func(tc *targetConn) {
				if p.tgtReset {
					// dies on its own once the proxy has the whole (corrupt) stream, i.e.
					// while the proxy is draining the client
					for p.sent < len(p.wire) {
						simrt.Sleep(T / 50)
					}
					simrt.Sleep(T/40 + wait)
					tc.C.Abort()
					p.tgtResetAt = simrt.Elapsed()
					simrt.Fault("target_rst_during_drain")
					return
				}
				buf := make([]byte, 4096)
				for {
					n, err := tc.C.Read(buf)
					tc.Got = append(tc.Got, buf[:n]...)
					if err != nil {
						break
					}
				}
				if rst {
					simrt.Sleep(wait)
					tc.C.Abort()
					simrt.Fault("target_rst_after_eof")
					return
				}
				tc.C.Close()
			})
		}
	}
	// In a fifth of the runs the listener is closed (a reload or a shutdown) while
	// probes are pending: the handlers keep absorbing them until their deadlines.
	stopEarly := G.Draw(5) == 0
	if stopEarly {
		at := T*time.Duration(1+G.Draw(8))/10 + T/300 // off the T/50 grid the replays connect on
		simrt.GoNamed("c06-listener-close", func() {
			simrt.Sleep(at)
			srv.Stop()
			simrt.Probe("listener_closed_while_probes_pending")
		})
	}
	window := 10 * T
	for i, p := range probes {
		p := p
		// a replay must come after its original was fully presented
		var after *c06probe
		if p.replayOf >= 0 {
			after = probes[p.replayOf]
		}
		_ = i
		simrt.GoNamed(fmt.Sprintf("probe-%d", p.k), func() {
			if after != nil {
				for after.sent < len(after.wire) || after.c == nil {
					simrt.Sleep(T / 50)
				}
				simrt.Sleep(T / 50)
			}
			if p.reflect {
				// record what the server sends on an ordinary relayed connection first
				down := payload(G, 1+G.Draw(200))
				startTarget(w, tgtIP, 8500+p.k, func(tc *targetConn) {
					tc.C.Write(down)
					readAll(tc.C)
					tc.C.Close()
				})
				rcn, err := srv.connect(net.IPv4(198, 18, 2, byte(p.k+1)).To4(), 21500+p.k)
				if err != nil {
					p.writeErr = err
					p.done = true
					return
				}
				enc := newEncoder(p.key)
				rcn.Write(enc.Chunk(socksAddr(fmt.Sprintf("%s:%d", tgtIP, 8500+p.k))))
				rd := shadowsocks.NewReader(rcn, p.key.EK)
				buf := make([]byte, len(down))
				n := 0
				for n < len(buf) {
					m, err := rd.Read(buf[n:])
					n += m
					if err != nil {
						break
					}
				}
				rcn.CloseWrite()
				readAll(rcn)
				rcn.Close()
				p.wire = append([]byte(nil), rcn.Peer().Wrote...)
				if len(p.wire) < 50 {
					p.wire = payload(G, 60) // recording failed: fall back to a random probe
					p.class = "random"
				}
			}
			cc, err := srv.connect(net.IPv4(198, 18, 1, byte(p.k+1)).To4(), 21000+p.k)
			if err != nil {
				p.writeErr = err
				p.done = true
				return
			}
			p.c = cc
			p.connectAt = simrt.Elapsed()
			first := true
			write := func(b []byte) {
				if len(b) == 0 {
					return
				}
				if !first && p.nextTrue >= 0 && p.sent == len(p.wire) {
					// garbage after a truncated stream must not accidentally continue it
					// (the true continuation depends on the client's random salt)
					b[0] = byte(p.nextTrue) ^ 0x5a
				}
				first = false
				if err := writeSegmented(G, cc, b, 3); err != nil && p.writeErr == nil {
					p.writeErr = err
				}
				p.sent += len(b)
				p.lastWrite = simrt.Elapsed()
			}
			write(p.wire)
			var gotEnd flag
			simrt.GoNamed("probe-reader", func() {
				readAll(cc) // returns on FIN or RST
				gotEnd.Set()
			})
			postAuthOpen := p.auth && p.postAuth != ""
			switch {
			case p.tgtReset:
				// goes on sending after the target died, then half-closes: the server has
				// to take all of it (it may well end its own sending side meanwhile)
				for tries := 0; p.tgtResetAt < 0 && tries < 200; tries++ {
					simrt.Sleep(T / 50)
				}
				for i := 0; i < 3; i++ {
					simrt.Sleep(T / 20)
					write(payload(G, 1+G.Draw(2000)))
				}
				simrt.Sleep(T / 20)
				p.finAt = simrt.Elapsed()
				p.didFin = true
				cc.CloseWrite()
			case postAuthOpen:
				// keep the connection open over the observation window, optionally trickling
				if p.behav == 2 {
					for i := 0; i < 5; i++ {
						if i == 0 {
							simrt.Sleep(T / 10) // well before the handshake deadline
						} else {
							simrt.Sleep(window / 10)
						}
						// the first trickle must complete the 50 bytes the server waits for
						write(payload(G, 50+G.Draw(400)))
					}
				}
				gotEnd.WaitFor(window - (simrt.Elapsed() - p.connectAt))
			case p.behav == 1:
				simrt.Sleep(T * time.Duration(p.finFrac) / 10)
			case p.behav == 2:
				step := T / 10
				for i := 0; i < 8; i++ {
					simrt.Sleep(step)
					write(payload(G, 1+G.Draw(3000)))
				}
				gotEnd.WaitFor(3 * T)
			default:
				gotEnd.WaitFor(3 * T)
			}
			if !gotEnd.set {
				p.finAt = simrt.Elapsed()
				p.didFin = true
				cc.CloseWrite()
			}
			gotEnd.WaitFor(20 * T)
			if gotEnd.set {
				cc.Close()
			}
			p.done = true
		})
	}
	simrt.Quiesce()
	rc.Phase = "check"
	skew := simrt.Skew()
	for _, p := range probes {
		if p.c == nil {
			if !stopEarly {
				rc.Failf("connect-refused", "probe %d: %v", p.k, p.writeErr)
			}
			continue
		}
		if stopEarly && !srv.Handled[p.c.Rec.ID] {
			// arrived after the listener was closed, or was taken off the socket in the
			// very instant of the close and closed unserved by the closing listener
			continue
		}
		srvEnd := p.c.Peer()
		finRecv, gotFin := p.c.Has("fin-recv")
		rstRecv, gotRst := p.c.Has("rst-recv")
		endAt, ended := finRecv, gotFin
		if gotRst && (!gotFin || rstRecv < finRecv) {
			endAt, ended = rstRecv, true
		}
		cls := p.class
		if !p.auth {
			rc.Probe("unauth:" + cls)
			if n := len(srvEnd.Wrote); n != 0 {
				rc.Failf("probe-answered:"+cls, "probe %d (%s): server wrote %d bytes to an unauthenticated client", p.k, p.desc, n)
			}
			if gotRst && p.lastWrite+skew+time.Microsecond >= rstRecv && rstRecv >= p.connectAt+srv.Timeout {
				// the client was still writing at the instant of the close (clock ticks can
				// push a trickled write onto the deadline): unread data legitimately resets
				rc.Probe("client_write_at_close_instant")
				continue
			}
			if gotRst {
				rc.Failf("probe-reset:"+cls, "probe %d (%s): connection was reset (RST at %v; client's last write at %v, %d bytes sent, server read %d)", p.k, p.desc, rstRecv, p.lastWrite, p.sent, srvEnd.NRead)
			}
			if !ended {
				rc.Failf("probe-never-closed:"+cls, "probe %d (%s): server never closed the connection (client FIN at %v: %v)", p.k, p.desc, p.finAt, p.didFin)
				continue
			}
			if int(srvEnd.NRead) != p.sent && !gotRst {
				rc.Failf("probe-not-fully-read:"+cls, "probe %d (%s): server read %d of %d bytes before closing", p.k, p.desc, srvEnd.NRead, p.sent)
			}
			// Not before the client closes or the handshake timeout elapses; at the
			// deadline at the latest (a server that keeps a half-closed probe until the
			// deadline is as silent as one that closes on the client's FIN).
			// behav 1 without a FIN: injected clock ticks delayed the client's FIN past the
			// handshake deadline, so only the deadline applies.
			deadline := p.connectAt + srv.Timeout
			notBefore := deadline
			if p.didFin && p.behav == 1 && p.finAt < deadline {
				notBefore = p.finAt
			}
			if endAt < notBefore || endAt > deadline+skew {
				rc.Failf("probe-close-time:"+cls, "probe %d (%s): server closed at %v, expected within [%v, %v] (client FIN at %v: %v; connect at %v, timeout %v, injected clock skew %v)", p.k, p.desc, endAt, notBefore, deadline+skew, p.finAt, p.didFin, p.connectAt, srv.Timeout, skew)
			}
			continue
		}
		// authenticated, then invalid / incomplete: must be drained, not closed, while the client is open
		rc.Probe("postauth:" + p.postAuth + ":" + cls)
		if p.postAuth == "incomplete" && ended && !(gotRst && endAt == rstRecv) && len(srvEnd.Wrote) == 0 &&
			endAt >= p.connectAt+srv.Timeout && endAt <= p.connectAt+srv.Timeout+skew && int(srvEnd.NRead) <= p.sent {
			// An intact header whose address chunk never arrives is an unfinished
			// handshake, not a stream that turned invalid: giving up silently at the
			// handshake deadline (first sentence of the statement) is as good as
			// waiting for the client (what the repository does).
			rc.Probe("incomplete_closed_at_handshake_deadline")
			continue
		}
		if p.tgtReset {
			// The target died while the client was being drained. Ending the sending
			// side (a FIN) is no active close; not taking what the client still sends is.
			if freshRefusalExcused(rc, p.key, p.wire) || p.tgtResetAt < 0 {
				continue
			}
			rc.Probe("postauth_target_reset_during_drain")
			if gotRst {
				rc.Failf("postauth-reset-after-target-died", "probe %d (%s): the target reset its connection at %v while the proxy was draining the client; the client, still open, went on sending and got a reset at %v (sent %d bytes, server read %d)", p.k, p.desc, p.tgtResetAt, rstRecv, p.sent, srvEnd.NRead)
			} else if int(srvEnd.NRead) != p.sent {
				rc.Failf("postauth-not-drained-after-target-died", "probe %d (%s): the target reset its connection at %v while the proxy was draining the client; the server read %d of the %d bytes the client sent before half-closing at %v", p.k, p.desc, p.tgtResetAt, srvEnd.NRead, p.sent, p.finAt)
			}
			continue
		}
		if ended && (!p.didFin || endAt < p.finAt) {
			if p.replayOf < 0 && !p.reflect && freshRefusalExcused(rc, p.key, p.wire) {
				continue
			}
			how := "closed (FIN)"
			if gotRst && endAt == rstRecv {
				how = "reset (RST)"
			}
			rc.Failf("postauth-closed-while-client-open:"+p.postAuth, "probe %d (%s): the stream turned invalid after authentication and the server %s the connection at %v (%v after connect) while the client was still open (observation window %v, timeout %v)",
				p.k, p.desc, how, endAt, endAt-p.connectAt, window, srv.Timeout)
		}
		if p.didFin && !ended {
			rc.Failf("postauth-never-closed:"+p.postAuth, "probe %d (%s): client sent FIN at %v but the server never closed", p.k, p.desc, p.finAt)
		}
		if p.didFin && ended && endAt >= p.finAt && int(srvEnd.NRead) != p.sent && !gotRst {
			rc.Failf("postauth-not-drained:"+p.postAuth, "probe %d (%s): server read %d of %d bytes", p.k, p.desc, srvEnd.NRead, p.sent)
		}
	}
	// No unauthenticated input may cause a dial. Every probe names its own port:
	// only a stream whose address chunk is intact (bad-chunk) dials, once; a
	// replay carries its source's port, a reflected recording none (its
	// recording connection dialed 8500+k once).
	allowed := map[int]int{}
	for _, p := range probes {
		if p.auth && p.postAuth == "bad-chunk" && p.replayOf < 0 {
			allowed[8000+p.k] = 1
		}
		if p.reflect {
			allowed[8500+p.k] = 1
		}
	}
	for _, d := range w.Dials {
		if allowed[d.Port] == 0 {
			cls := "other"
			if k := d.Port - 8000; k >= 0 && k < len(probes) {
				cls = probes[k].class
			}
			rc.Failf("probe-dialed:"+cls, "a target (port %d) was dialed although no input that authenticates and carries a readable address names it (or names it once only)", d.Port)
		}
		allowed[d.Port]--
	}
	srv.Stop()
	simrt.Quiesce()
	rc.Phase = "done"
}

// c06c: "replays" that arrive at the same time as their original. Two to four
// connections present the very same valid stream at once (an on-path observer
// duplicating a client's first segment), the replay history is on. At most one of
// them is the original; every other one is a replay: the server writes nothing
// to it, does not reset it, and keeps it until the handshake timeout.
func init() {
	Register(&Scenario{Name: "c06c", Prop: "C06", MaxSteps: 200000, Run: runC06c})
}

func runC06c(rc *RunCtx) {
	G := rc.G
	w := simnet.NewWorld()
	keys := uniqueCrypto(genKeys(G, 1+G.Draw(3), ""))
	T := []time.Duration{200 * time.Millisecond, time.Second}[G.Draw(2)]
	srv := startTCPServer(rc, w, tcpServerOpts{Keys: keys, Replay: 100, Timeout: T, Debug: rc.F.Draw(3) == 1})
	tgtIP := net.IPv4(93, 184, 216, 34).To4()
	startTarget(w, tgtIP, 8000, func(tc *targetConn) {
		tc.C.Write([]byte("answer"))
		readAll(tc.C)
		tc.C.Close()
	})
	key := keys[G.Draw(len(keys))]
	enc := newEncoder(key)
	enc.Lazy(socksAddr(fmt.Sprintf("%s:8000", tgtIP)))
	wire := enc.Chunk(payload(G, 1+G.Draw(100)))
	n := 2 + G.Draw(3)
	type copyT struct {
		c         *simnet.TCPConn
		connectAt time.Duration
		done      flag
	}
	cs := make([]*copyT, n)
	for i := range cs {
		i := i
		c := &copyT{}
		cs[i] = c
		j := jitter(G)
		simrt.GoNamed(fmt.Sprintf("c06c-copy-%d", i), func() {
			defer c.done.Set()
			j()
			cc, err := srv.connect(net.IPv4(198, 18, 6, byte(1+i)).To4(), 26000+i)
			if err != nil {
				return
			}
			c.c, c.connectAt = cc, simrt.Elapsed()
			writeSegmented(G, cc, wire, 3)
			var end flag
			simrt.GoNamed("c06c-reader", func() { readAll(cc); end.Set() })
			end.WaitFor(4 * T)
			cc.CloseWrite()
			end.Wait()
			cc.Close()
		})
	}
	for _, c := range cs {
		c.done.Wait()
	}
	simrt.Quiesce()
	rc.Nontrivial = true
	served := 0
	for _, d := range w.Dials {
		if d.Port == 8000 {
			served++
		}
	}
	answered := 0
	for _, c := range cs {
		if c.c != nil && len(c.c.Peer().Wrote) > 0 {
			answered++
		}
	}
	if served > 1 || answered > 1 {
		rc.Failf("concurrent-replay-served", "%d connections presented the same stream at the same time (replay history on): the target was contacted %d times and %d of them got an answer; all but one are replays, to which the server writes nothing", n, served, answered)
	}
	skew := simrt.Skew()
	for i, c := range cs {
		if c.c == nil || len(c.c.Peer().Wrote) > 0 {
			continue
		}
		if served == 0 && freshRefusalExcused(rc, key, wire) {
			continue
		}
		if _, rst := c.c.Has("rst-recv"); rst {
			rc.Failf("concurrent-replay-reset", "copy %d of a stream presented %d times at once was reset instead of being absorbed", i, n)
		}
		if fin, ok := c.c.Has("fin-recv"); ok && fin+skew+T/300 < c.connectAt+T {
			rc.Failf("concurrent-replay-closed-early", "copy %d of a stream presented %d times at once was closed by the server at %v, %v after it connected, before the handshake timeout %v", i, n, fin, fin-c.connectAt, T)
		}
	}
	srv.Stop()
	simrt.Quiesce()
	rc.Phase = "done"
}
