package verifharness

import (
	"fmt"
	"net"
	"strings"
	"time"

	"github.com/Jigsaw-Code/outline-sdk/transport/shadowsocks"
	"github.com/Jigsaw-Code/outline-ss-server/verifrt/simnet"
	"github.com/Jigsaw-Code/outline-ss-server/verifrt/simrt"
)

// C08 — server-issued salts are fresh, recognisable, and never accepted back.
func init() {
	Register(&Scenario{Name: "c08", Prop: "C08", MaxSteps: 200000, Tick: true, Run: runC08})
}

type fixedSalt []byte

func (f fixedSalt) GetSalt(salt []byte) error {
	copy(salt, f)
	return nil
}

func runC08(rc *RunCtx) {
	G := rc.G
	w := simnet.NewWorld()
	if rc.F.Draw(2) == 1 {
		w.ShortRead = []int{100, 600}[rc.F.Draw(2)]
	}
	// distinct secrets so that "issued for the matched key" is unambiguous
	nK := 1 + G.Draw(5)
	var keys []*Key
	for i := 0; i < nK; i++ {
		k := mkKey(fmt.Sprintf("key-%d", i), cipherNames[G.Draw(4)], fmt.Sprintf("c08-secret-%d", i))
		// now and then the secret of an earlier key under another cipher (the pair
		// of cipher and secret stays unique, so "the matched key" stays unambiguous)
		if i > 0 && G.Draw(3) == 0 {
			o := keys[G.Draw(len(keys))]
			if c := cipherNames[G.Draw(4)]; c != o.Cipher {
				cand := mkKey(k.ID, c, o.Secret)
				if !configured(keys, cand) {
					k = cand
					simrt.Probe("one_secret_under_two_ciphers")
				}
			}
		}
		keys = append(keys, k)
	}
	T := []time.Duration{100 * time.Millisecond, time.Second, 59 * time.Second}[G.Draw(3)]
	replay := []int{0, 0, 100}[G.Draw(3)]
	// (a third of the runs with the operator's -verbose flag: the paths that only
	// format debug messages run too)
	srv := startTCPServer(rc, w, tcpServerOpts{Keys: keys, Replay: replay, Timeout: T, Debug: G.Draw(3) == 0})
	tgtIP := net.IPv4(93, 184, 216, 34).To4()
	type rec struct {
		key  *Key
		out  []byte // raw bytes the server wrote to the client
		salt string
	}
	var recs []*rec
	var clientWires [][]byte // what the clients of the recorded connections sent
	nConn := 2 + G.Draw(8)
	if rc.Tier == "thorough" {
		nConn = 2 + G.Draw(38)
	}
	rc.Phase = "collect"
	port := 8000
	// A third of the runs open the recorded connections concurrently (and more of
	// them): the salts of overlapping responses must be fresh all the same.
	concurrent := G.Draw(3) == 0
	if concurrent && nConn < 20 {
		nConn = 20 + G.Draw(21)
	}
	collect := func(i int, key *Key, port int) {
		down := payload(G, 1+G.Draw(300))
		startTarget(w, tgtIP, port, func(tc *targetConn) {
			tc.C.Write(down)
			readAll(tc.C)
			tc.C.Close()
		})
		cc, err := srv.connect(net.IPv4(198, 18, 8, 1).To4(), 24000+i)
		if err != nil {
			panic(err)
		}
		enc := newEncoder(key)
		writeSegmented(G, cc, enc.Chunk(socksAddr(fmt.Sprintf("%s:%d", tgtIP, port))), 3)
		r := shadowsocks.NewReader(cc, key.EK)
		buf := make([]byte, len(down))
		n := 0
		for n < len(buf) {
			m, err := r.Read(buf[n:])
			n += m
			if err != nil {
				break
			}
		}
		cc.CloseWrite()
		readAll(cc)
		cc.Close()
		out := append([]byte(nil), cc.Peer().Wrote...)
		S := key.EK.SaltSize()
		if (string(buf[:n]) != string(down) || len(out) < S) && freshRefusalExcused(rc, key, cc.Wrote) {
			return
		}
		if string(buf[:n]) != string(down) || len(out) < S {
			rc.Failf("collect-failed", "connection %d under %s did not relay the target's %d bytes (got %d, server wrote %d raw bytes)", i, key, len(down), n, len(out))
			return
		}
		recs = append(recs, &rec{key: key, out: out, salt: string(out[:S])})
		clientWires = append(clientWires, append([]byte(nil), cc.Wrote...))
	}
	if concurrent {
		simrt.Probe("concurrent_recorded_connections")
		dn := make([]flag, nConn)
		for i := 0; i < nConn; i++ {
			i := i
			key := keys[G.Draw(len(keys))]
			port++
			p := port
			j := jitter(G)
			simrt.GoNamed(fmt.Sprintf("c08-conn-%d", i), func() {
				j()
				collect(i, key, p)
				dn[i].Set()
			})
		}
		for i := range dn {
			dn[i].Wait()
		}
	} else {
		for i := 0; i < nConn; i++ {
			key := keys[G.Draw(len(keys))]
			port++
			collect(i, key, port)
		}
	}
	// (i) freshness within the run
	seen := map[string]int{}
	for i, r := range recs {
		if j, dup := seen[r.salt]; dup {
			rc.Failf("server-salt-reused", "connections %d and %d (keys %s, %s) got the same %d-byte server salt", j, i, recs[j].key.ID, r.key.ID, len(r.salt))
		}
		seen[r.salt] = i
	}
	if len(recs) >= 2 {
		rc.Nontrivial = true
	}
	// A reload in between (a third of the runs): the same keys are served by freshly
	// built cipher entries, none of which has produced a response yet. What the
	// server issued for a key before is still its own output for that key.
	if G.Draw(3) == 0 {
		fresh := append([]*Key(nil), keys...)
		for i := len(fresh) - 1; i > 0; i-- {
			j := G.Draw(i + 1)
			fresh[i], fresh[j] = fresh[j], fresh[i]
		}
		srv.Ciphers.Update(mkCipherList(fresh))
		simrt.Probe("keys_reloaded_between_recording_and_reflection")
	}
	// (ii) reflections, handled like probes; (iii) foreign salts are not refused
	rc.Phase = "reflect"
	type refl struct {
		desc      string
		wire      []byte
		wantRefl  bool // must be refused as reflected server salt
		wantOK    bool // must be served normally
		fin       bool
		cc        *simnet.TCPConn
		connectAt time.Duration
		finAt     time.Duration
		port      int
		done      bool
		key       *Key // wantOK: the key the stream is valid under
	}
	var rs []*refl
	dials0 := len(w.Dials)
	usedForeign := map[string]bool{}
	nR := 1 + G.Draw(5)
	for i := 0; i < nR && len(recs) > 0; i++ {
		src := recs[G.Draw(len(recs))]
		S := src.key.EK.SaltSize()
		x := &refl{fin: G.Draw(2) == 0}
		port++
		x.port = port
		switch G.Draw(4) {
		case 0: // whole recording
			x.wire = src.out
			x.desc = "whole server output"
		case 1: // truncated, but long enough to be looked at
			n := 50 + G.Draw(len(src.out)-49)
			if n > len(src.out) {
				n = len(src.out)
			}
			x.wire = src.out[:n]
			x.desc = fmt.Sprintf("server output truncated to %d of %d", n, len(src.out))
		case 2: // extended with garbage
			x.wire = append(append([]byte(nil), src.out...), payload(G, 1+G.Draw(500))...)
			x.desc = "server output extended with garbage"
		default: // a fresh client stream under a DIFFERENT key that reuses a server salt issued for src.key
			var other *Key
			for _, k := range keys {
				if k.Secret != src.key.Secret && k.EK.SaltSize() == S {
					other = k
				}
			}
			if other != nil && usedForeign[other.ID+src.salt] {
				other = nil
			}
			if other == nil {
				x.wire = src.out
				x.desc = "whole server output"
				break
			}
			usedForeign[other.ID+src.salt] = true
			enc := newEncoder(other)
			enc.w.SetSaltGenerator(fixedSalt(src.salt))
			down := payload(G, 20)
			startTarget(w, tgtIP, port, func(tc *targetConn) {
				tc.C.Write(down)
				readAll(tc.C)
				tc.C.Close()
			})
			x.wire = enc.Chunk(socksAddr(fmt.Sprintf("%s:%d", tgtIP, port)))
			x.wantOK = true
			x.key = other
			x.desc = fmt.Sprintf("client stream under %s carrying a salt the server issued for %s", other.ID, src.key.ID)
		}
		if !x.wantOK {
			if S >= 20 {
				x.wantRefl = len(x.wire) >= 50
			}
			x.desc += fmt.Sprintf(" (%s, %d-byte salt)", src.key.Cipher, S)
		}
		rs = append(rs, x)
		rc.D("reflection %d: %s fin=%v", i, x.desc, x.fin)
	}
	for i, x := range rs {
		i, x := i, x
		simrt.GoNamed(fmt.Sprintf("reflector-%d", i), func() {
			cc, err := srv.connect(net.IPv4(198, 18, 8, 2).To4(), 25000+i)
			if err != nil {
				panic(err)
			}
			x.cc = cc
			x.connectAt = simrt.Elapsed()
			writeSegmented(G, cc, x.wire, 3)
			var end flag
			simrt.GoNamed("reflector-reader", func() { readAll(cc); end.Set() })
			if x.wantOK {
				end.WaitFor(T / 2)
				cc.CloseWrite()
				end.Wait()
				cc.Close()
				x.done = true
				return
			}
			if x.fin {
				simrt.Sleep(T / 4)
				x.finAt = simrt.Elapsed()
				cc.CloseWrite()
			}
			end.WaitFor(3 * T)
			if !end.set {
				cc.CloseWrite()
				end.WaitFor(3 * T)
			}
			if end.set {
				cc.Close()
			}
			x.done = true
		})
	}
	// With the history on, now and then a replay of a CLIENT's handshake is refused
	// while the reflections are being absorbed: one refusal is no business of the
	// other.
	if replay > 0 && len(clientWires) > 0 && G.Draw(2) == 0 {
		for k, n := 0, 1+G.Draw(2); k < n; k++ {
			k := k
			wire := clientWires[G.Draw(len(clientWires))]
			d := time.Duration(G.Draw(5)) * T / 8
			simrt.GoNamed(fmt.Sprintf("c08-client-replay-%d", k), func() {
				simrt.Sleep(d)
				cc, err := srv.connect(net.IPv4(198, 18, 8, 3).To4(), 25500+k)
				if err != nil {
					return
				}
				cc.Write(wire)
				var end flag
				simrt.GoNamed("c08-client-replay-reader", func() { readAll(cc); end.Set() })
				end.WaitFor(3 * T)
				cc.CloseWrite()
				end.Wait()
				cc.Close()
			})
		}
		simrt.Probe("client_replay_refused_while_reflections_are_absorbed")
	}
	simrt.Quiesce()
	rc.Phase = "check"
	skew := simrt.Skew()
	for i, x := range rs {
		if x.cc == nil {
			continue
		}
		var r *TCPRec
		if l := srv.M.tcpFor(x.cc.Rec.ID); len(l) == 1 {
			r = l[0]
		}
		if !x.wantOK && !x.wantRefl {
			continue // 16-byte salts / too short: no recognisability claim
		}
		if r == nil || r.first("closed") == nil {
			rc.Failf("reflection-unfinished", "reflection %d (%s): the server never finished the connection", i, x.desc)
			continue
		}
		st := r.first("closed").Status
		se := x.cc.Peer()
		if x.wantOK {
			rc.Probe("foreign_salt_presented")
			served := false
			for _, d := range w.Dials {
				if d.Port == x.port {
					served = true
				}
			}
			if !served && !freshRefusalExcused(rc, x.key, x.wire) {
				rc.Failf("foreign-salt-refused:"+st, "reflection %d (%s): expected to be served, but its target was never contacted (status %s)", i, x.desc, st)
			}
			continue
		}
		if !x.wantRefl {
			continue // 16-byte salts: no recognisability claim
		}
		rc.Probe("reflected_server_output_presented")
		if !strings.HasPrefix(st, "ERR_REPLAY") {
			rc.Failf("reflection-not-refused:"+st, "reflection %d (%s, replay cache %d): real server output presented as client input ended %s, expected ERR_REPLAY_SERVER", i, x.desc, replay, st)
			continue
		}
		// one refusal, one name: what is reported as a probe is reported closed
		// under the same status
		if p := r.first("probe"); p != nil && p.Status != st {
			rc.Failf("reflection-status-inconsistent", "reflection %d (%s): reported as a probe with status %s and closed with status %s", i, x.desc, p.Status, st)
		}
		// handled like an invalid probe
		if n := len(se.Wrote); n != 0 {
			rc.Failf("reflection-answered", "reflection %d (%s): server wrote %d bytes back", i, x.desc, n)
		}
		if _, rst := x.cc.Has("rst-recv"); rst {
			rc.Failf("reflection-reset", "reflection %d (%s): the connection was reset", i, x.desc)
		}
		// not before the client closes or the handshake timeout elapses, and no
		// later than the deadline (a server that holds a half-closed probe until
		// the deadline is as good as one that closes on the client's FIN)
		endAt, ok := x.cc.Has("fin-recv")
		deadline := x.connectAt + T
		notBefore := deadline
		if x.fin && x.finAt < deadline {
			notBefore = x.finAt
		}
		if !ok {
			rc.Failf("reflection-never-closed", "reflection %d (%s): server never closed", i, x.desc)
		} else if endAt < notBefore || endAt > deadline+skew {
			rc.Failf("reflection-close-time", "reflection %d (%s): server closed at %v, expected within [%v, %v] (timeout %v, client FIN=%v at %v)", i, x.desc, endAt, notBefore, deadline+skew, T, x.fin, x.finAt)
		}
	}
	// no reflected recording contains a readable destination: during the
	// reflection phase only the served foreign-salt streams may dial, once each
	okPort := map[int]int{}
	unclaimed := false
	for _, x := range rs {
		if x.wantOK {
			okPort[x.port] = 1
		} else if !x.wantRefl && len(x.wire) >= 50 {
			// output under a cipher with a 16-byte salt is not marked: presented back
			// it decrypts as an ordinary stream and may name any destination
			unclaimed = true
		}
	}
	for _, d := range w.Dials[dials0:] {
		if unclaimed {
			break
		}
		if okPort[d.Port] == 0 {
			rc.Failf("reflection-dialed", "a target (port %d) was dialed during the reflection phase although no presented stream that must be served names it", d.Port)
		}
		okPort[d.Port]--
	}
	srv.Stop()
	simrt.Quiesce()
	rc.Phase = "done"
}
