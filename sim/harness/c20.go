package verifharness

import (
	"bytes"
	"fmt"
	"net"
	"net/netip"
	"strings"
	"time"

	"github.com/Jigsaw-Code/outline-ss-server/ipinfo"
	"github.com/Jigsaw-Code/outline-ss-server/service/metrics"
	"github.com/Jigsaw-Code/outline-ss-server/verifrt/simnet"
	"github.com/Jigsaw-Code/outline-ss-server/verifrt/simrt"
	"github.com/prometheus/client_golang/prometheus"
	dto "github.com/prometheus/client_model/go"
	"github.com/prometheus/common/expfmt"
)

// C20 — metrics never expose client addresses and label locations by class.
func init() {
	Register(&Scenario{Name: "c20", Prop: "C20", MaxSteps: 100000, Run: runC20, Post: postC20})
}

type c20client struct {
	addr     net.Addr
	text     string
	forms    []string // textual forms of the IP that must not appear
	port     string
	want     []string // acceptable location labels
	wantASN  string
	wantOrg  string
	nOpen    int
	global   bool
	parsable bool
	// a private / CGNAT / unique-local address: Go's IsGlobalUnicast calls it
	// global (the repository looks it up), the statement's "non-global" can be read
	// either way, so XL without a lookup is as good as the database's verdict
	altXL bool
	ipKey string // the address without port: clients with equal ipKey must get equal labels
	// further source ports the client used (c20s: one per connection, one for UDP)
	morePorts map[string]bool
}

var c20private = []netip.Prefix{netip.MustParsePrefix("10.0.0.0/8"), netip.MustParsePrefix("172.16.0.0/12"), netip.MustParsePrefix("192.168.0.0/16"), netip.MustParsePrefix("100.64.0.0/10"), netip.MustParsePrefix("fc00::/7")}

func c20isPrivate(a netip.Addr) bool {
	a = a.Unmap().WithZone("")
	for _, p := range c20private {
		if p.Contains(a) {
			return true
		}
	}
	return false
}

type c20data struct {
	clients []*c20client
	db      *fakeIPInfo
	dbOn    bool
	prom    prometheus.Collector
}

var c20allowedLabels = map[string]bool{"access_key": true, "location": true, "asn": true, "asorg": true, "status": true, "dir": true, "proto": true, "port": true, "found_key": true, "error": true, "version": true, "le": true}

func ipForms(a netip.Addr) []string {
	var f []string
	add := func(s string) {
		if s != "" {
			f = append(f, strings.ToLower(s))
		}
	}
	add(a.String())
	add(a.WithZone("").String())
	add(a.Unmap().String())
	if a.Is6() || a.Is4In6() {
		add(a.StringExpanded())
		add(a.WithZone("").StringExpanded())
	}
	if a.Zone() != "" {
		add("%" + a.Zone())
	}
	return f
}

func runC20(rc *RunCtx) {
	G := rc.G
	db := &fakeIPInfo{Answers: map[string]ipinfo.IPInfo{}, Errs: map[string]bool{}}
	d := &c20data{db: db, dbOn: G.Draw(5) != 0}
	var prom promMetrics
	if d.dbOn {
		prom = newPromMetricsWith(rc, db)
	} else {
		prom = newPromMetricsWith(rc, nil)
	}
	d.prom = prom
	rc.PostData = d
	pool := []string{
		"8.8.4.4", "93.184.216.34", "2606:4700:4700::1001", "2a00:1450:4001:81b::200e", "::ffff:151.101.65.69",
		"10.11.12.13", "192.168.77.88", "127.0.0.1", "::1", "169.254.99.7", "fe80::1234:5678%eth0", "fe80::9abc", "100.64.3.3", "0.0.0.0", "224.0.0.251", "fc00::77",
	}
	malformed := []string{"not-an-address", "93.184.216.35", "[2606:4700::5", "999.1.2.3:4567", "93.184.216.36:notaport:1", "host.example.com:443"}
	nC := 1 + G.Draw(8)
	type verdict struct {
		want     []string
		asn, org string
	}
	decided := map[string]*verdict{} // database behaviour is a function of the IP
	for i := 0; i < nC; i++ {
		c := &c20client{port: fmt.Sprint(51000 + 7*i + G.Draw(5))}
		if G.Draw(6) == 0 {
			c.text = malformed[G.Draw(len(malformed))]
			c.addr = strAddr(c.text)
			c.want = []string{"XA"}
			if !d.dbOn {
				// lookup disabled: the property orders "XA when the address cannot be parsed" first
				c.want = []string{"XA"}
			}
			if h, _, err := net.SplitHostPort(c.text); err == nil {
				if a, err := netip.ParseAddr(h); err == nil {
					c.forms = ipForms(a)
				}
			} else if a, err := netip.ParseAddr(strings.Trim(c.text, "[]")); err == nil {
				c.forms = ipForms(a)
			}
		} else {
			ipt := pool[G.Draw(len(pool))]
			a := netip.MustParseAddr(ipt)
			c.parsable = true
			c.forms = ipForms(a)
			ip := net.IP(a.AsSlice())
			var pn int
			fmt.Sscan(c.port, &pn)
			switch G.Draw(3) {
			case 0:
				c.addr = &net.TCPAddr{IP: ip, Port: pn, Zone: a.Zone()}
			case 1:
				c.addr = &net.UDPAddr{IP: ip, Port: pn, Zone: a.Zone()}
			default:
				// the same address through another net.Addr implementation: the label
				// is decided by the address's class alone, not by the concrete type
				c.addr = strAddr((&net.TCPAddr{IP: ip, Port: pn, Zone: a.Zone()}).String())
			}
			c.text = c.addr.String()
			c.ipKey = a.String()
			c.global = ip.IsGlobalUnicast()
			switch {
			case !d.dbOn:
				c.want = []string{""}
				if a.Zone() != "" {
					c.want = []string{"", "XA"}
				}
			case a.Zone() != "":
				c.want = []string{"XA", "XL"} // zoned literal: unparsable for net.ParseIP, non-global by class
			case !c.global:
				c.want = []string{"XL"}
			case decided[ip.String()] != nil:
				v := decided[ip.String()]
				c.want, c.wantASN, c.wantOrg = v.want, v.asn, v.org
			default:
				key := ip.String()
				switch G.Draw(4) {
				case 0:
					db.Errs[key] = true
					c.want = []string{"XD"}
					if G.Draw(2) == 0 {
						// partial failure: the country lookup worked, the ASN lookup failed
						db.Answers[key] = ipinfo.IPInfo{CountryCode: "BR"}
						simrt.Probe("database_partial_failure")
					}
				case 1:
					c.want = []string{"ZZ"} // no country in the database
				default:
					cc := fmt.Sprintf("Q%c", 'A'+i)
					db.Answers[key] = ipinfo.IPInfo{CountryCode: ipinfo.CountryCode(cc), ASN: ipinfo.ASN{Number: 64500 + i, Organization: fmt.Sprintf("Org %d", i)}}
					c.want = []string{cc}
					c.wantASN = fmt.Sprint(64500 + i)
					c.wantOrg = fmt.Sprintf("Org %d", i)
				}
				decided[key] = &verdict{c.want, c.wantASN, c.wantOrg}
			}
		}
		if c.parsable && d.dbOn && len(c.want) == 1 && c.want[0] != "XL" && len(c.forms) > 0 {
			if a, err := netip.ParseAddr(c.forms[0]); err == nil && c20isPrivate(a) {
				c.altXL = true
			}
		}
		d.clients = append(d.clients, c)
		rc.D("client %d: %q (%T) want location %v altXL=%v", i, c.text, c.addr, c.want, c.altXL)
	}
	keys := []string{"key-1", "key-2"}
	local := &net.TCPAddr{IP: net.IPv4(203, 0, 113, 5), Port: 9000}
	// a slow database and scrapes while lookups are under way: what a scrape or a
	// close books in the meantime must carry the client's class all the same
	if G.Draw(3) == 0 {
		db.Latency = time.Duration(1+G.Draw(5)) * time.Millisecond
		for k, n := 0, 1+G.Draw(3); k < n; k++ {
			at := time.Duration(G.Draw(8)) * time.Millisecond
			simrt.GoNamed(fmt.Sprintf("c20-scraper-%d", k), func() {
				simrt.Sleep(at)
				collectFamilies(prom)
				simrt.Probe("scrape_during_activity")
			})
		}
	}
	for i, c := range d.clients {
		i, c := i, c
		n := 1 + G.Draw(3)
		simrt.GoNamed(fmt.Sprintf("c20-client-%d", i), func() {
			for k := 0; k < n; k++ {
				switch G.Draw(3) {
				case 0: // UDP association with traffic
					um := prom.AddUDPNatEntry(c.addr, keys[G.Draw(2)])
					um.AddPacketFromClient("OK", 100, 60)
					um.AddPacketFromTarget("OK", 200, 250)
					simrt.Sleep(time.Duration(G.Draw(3)) * time.Second)
					um.RemoveNatEntry()
				case 1: // probe
					c.nOpen++
					tm := prom.AddOpenTCPConnection(&fakeConn{remote: c.addr, local: local})
					tm.AddProbe("ERR_CIPHER", "timeout", 51)
					tm.AddClosed("ERR_CIPHER", metrics.ProxyMetrics{ClientProxy: 51}, time.Second)
				default:
					c.nOpen++
					tm := prom.AddOpenTCPConnection(&fakeConn{remote: c.addr, local: local})
					tm.AddAuthenticated(keys[G.Draw(2)])
					simrt.Sleep(time.Duration(G.Draw(3)) * time.Second)
					tm.AddClosed("OK", metrics.ProxyMetrics{ClientProxy: 1000, ProxyTarget: 900, TargetProxy: 5000, ProxyClient: 5100}, time.Second)
				}
				prom.AddCipherSearch("tcp", true, time.Millisecond)
			}
		})
	}
	simrt.Quiesce()
	if v, p := collectFamilies(prom); p != nil && v == nil {
		// H7 is C17's business; here only the exposition matters
		rc.Inconclusive = append(rc.Inconclusive, "scrape-panicked")
	}
	rc.Nontrivial = true
}

func postC20(rc *RunCtx, res *simrt.Result) {
	d, _ := rc.PostData.(*c20data)
	if d == nil {
		return
	}
	var fams map[string]any
	_ = fams
	reg := prometheus.NewPedanticRegistry()
	if err := reg.Register(d.prom); err != nil {
		rc.Failf("register-failed", "%v", err)
		return
	}
	var gathered, gerr = func() (r []byte, err error) {
		defer func() {
			if p := recover(); p != nil {
				err = fmt.Errorf("panic: %v", p)
			}
		}()
		mfs, err := reg.Gather()
		if err != nil {
			return nil, err
		}
		var buf bytes.Buffer
		enc := expfmt.NewEncoder(&buf, expfmt.FmtText)
		// structured pass: label names, label values
		opened := map[string]int{}
		for _, mf := range mfs {
			for _, m := range mf.GetMetric() {
				ls := labelsOf(m)
				for n, v := range ls {
					if !c20allowedLabels[n] {
						// not a violation by itself (the statement is about client material, which
						// the scans below look for in every label value): noted in the evidence
						rc.Probe("label_outside_known_dimensions:" + n)
					}
					lv := strings.ToLower(v)
					// (a port anywhere in the value: "peer=52007", "from :52007"; the
					// harness' ports are five digits that no key id, ASN or bucket has)
					nums := map[string]bool{}
					if n != "le" {
						for _, t := range strings.FieldsFunc(lv, func(r rune) bool { return r < '0' || r > '9' }) {
							nums[t] = true
						}
					}
					for _, c := range d.clients {
						exposed := nums[c.port]
						for p := range c.morePorts {
							exposed = exposed || nums[p]
						}
						if exposed {
							rc.Failf("client-port-exposed", "metric %s label %s=%q carries a client's source port", mf.GetName(), n, v)
						}
						for _, f := range c.forms {
							if f != "" && strings.Contains(lv, f) {
								rc.Failf("client-address-exposed:"+n, "metric %s label %s=%q contains client address %q (client %s)", mf.GetName(), n, v, f, c.text)
							}
						}
					}
				}
				if mf.GetName() == "tcp_connections_opened" {
					opened[ls["location"]+"|"+ls["asn"]+"|"+ls["asorg"]] += int(m.GetCounter().GetValue())
				}
			}
			if err := enc.Encode(mf); err != nil {
				return nil, err
			}
		}
		// every location label anywhere (UDP per-location counters, per-location
		// bytes and tunnel time included) belongs to the class of some client of the run
		locOK := map[string]bool{}
		for _, c := range d.clients {
			for _, w := range c.want {
				locOK[w] = true
			}
			if c.altXL {
				locOK["XL"] = true
			}
		}
		for _, mf := range mfs {
			for _, m := range mf.GetMetric() {
				if loc, has := labelsOf(m)["location"]; has && !locOK[loc] {
					rc.Failf("location-label-unexpected:"+loc, "metric %s carries location %q, no client of the run belongs to that class (acceptable: %v)", mf.GetName(), loc, simrt.SortedKeys(locOK))
				}
			}
		}
		// location labels by class: the opened connections must be explainable by
		// giving every client one of its acceptable labels
		var cl []*c20client
		var opts [][]string
		want := map[string]int{} // primary expectation (first option), for the report
		acceptable := map[string]bool{}
		for _, c := range d.clients {
			if c.nOpen == 0 {
				continue
			}
			var o []string
			for i, w := range c.want {
				if i == 0 {
					o = append(o, w+"|"+c.wantASN+"|"+c.wantOrg)
				} else {
					o = append(o, w+"||")
				}
			}
			if c.altXL {
				o = append(o, "XL||")
			}
			for _, k := range o {
				acceptable[k] = true
			}
			want[o[0]] += c.nOpen
			cl = append(cl, c)
			opts = append(opts, o)
		}
		var assign func(i int, left map[string]int, consistent bool) bool
		chosen := map[string]string{}
		assign = func(i int, left map[string]int, consistent bool) bool {
			if i == len(cl) {
				for _, n := range left {
					if n != 0 {
						return false
					}
				}
				return true
			}
			for _, k := range opts[i] {
				ipk := cl[i].ipKey
				prev, had := chosen[ipk]
				if consistent && ipk != "" && had && prev != k {
					continue
				}
				if left[k] >= cl[i].nOpen {
					left[k] -= cl[i].nOpen
					if consistent && ipk != "" && !had {
						chosen[ipk] = k
					}
					ok := assign(i+1, left, consistent)
					if consistent && ipk != "" && !had {
						delete(chosen, ipk)
					}
					left[k] += cl[i].nOpen
					if ok {
						return true
					}
				}
			}
			return false
		}
		left := map[string]int{}
		for k, n := range opened {
			left[k] = n
		}
		if !assign(0, left, true) && assign(0, left, false) {
			rc.Failf("location-label-inconsistent", "opened connections per location %v can only be explained by giving one client address different labels depending on the net.Addr type it arrived in (clients: %v)", opened, func() []string {
				var o []string
				for _, c := range cl {
					o = append(o, fmt.Sprintf("%s(%T)", c.text, c.addr))
				}
				return o
			}())
		} else if !assign(0, left, false) {
			flagged := false
			for _, k := range simrt.SortedKeys(opened) {
				if !acceptable[k] && opened[k] > 0 {
					flagged = true
					rc.Failf("location-label-unexpected:"+strings.SplitN(k, "|", 2)[0], "tcp_connections_opened has %d connections under location/asn/asorg %q, no client of the run belongs to that class (expected %v)", opened[k], k, want)
				}
			}
			for _, k := range simrt.SortedKeys(want) {
				if opened[k] < want[k] {
					single := true
					for i, c := range cl {
						if opts[i][0] == k && len(opts[i]) > 1 {
							single = false
						}
						_ = c
					}
					if single {
						flagged = true
						rc.Failf("location-label-missing:"+strings.SplitN(k, "|", 2)[0], "expected %d opened connections labelled location|asn|asorg=%q, found %d (all: %v)", want[k], k, opened[k], opened)
					}
				}
			}
			if !flagged {
				rc.Failf("location-label-count", "opened connections per location %v cannot be explained by the clients' classes %v (some clients have alternatives)", opened, want)
			}
		}
		return buf.Bytes(), nil
	}()
	if gerr != nil {
		rc.Inconclusive = append(rc.Inconclusive, "gather-failed")
		return
	}
	text := strings.ToLower(string(gathered))
	for _, c := range d.clients {
		for _, f := range c.forms {
			if len(f) >= 3 && strings.Contains(text, f) {
				// numbers such as "::1" could in principle occur in float values; require a label context
				idx := strings.Index(text, f)
				lineStart := strings.LastIndex(text[:idx], "\n") + 1
				lineEnd := idx + strings.Index(text[idx:]+"\n", "\n")
				line := text[lineStart:lineEnd]
				if strings.Contains(line, "{") && strings.Index(line, f) < strings.LastIndex(line, "}") {
					rc.Failf("client-address-in-exposition", "the text exposition contains client address %q: %s", f, line)
				}
			}
		}
	}
	// the database must never be asked about non-global addresses
	for _, ip := range d.db.Asked {
		if p := net.ParseIP(ip); p != nil && !p.IsGlobalUnicast() {
			rc.Failf("database-consulted-for-non-global", "the IP-info database was consulted for non-global address %s", ip)
		}
	}
}

// c20s: the same oracle with client addresses entering through the real
// service path (accepted connections and datagrams), not through fake conns.
func init() {
	Register(&Scenario{Name: "c20s", Prop: "C20", MaxSteps: 200000, Run: runC20s, Post: postC20})
}

func runC20s(rc *RunCtx) {
	G := rc.G
	w := simnet.NewWorld()
	db := &fakeIPInfo{Answers: map[string]ipinfo.IPInfo{}, Errs: map[string]bool{}}
	d := &c20data{db: db, dbOn: G.Draw(5) != 0}
	var prom promMetrics
	if d.dbOn {
		prom = newPromMetricsWith(rc, db)
	} else {
		prom = newPromMetricsWith(rc, nil)
	}
	d.prom = prom
	rc.PostData = d
	keys := genKeys(G, 1+G.Draw(3), "")
	m := &RecMetrics{Inner: prom}
	tsrv := startTCPServer(rc, w, tcpServerOpts{Keys: keys, Timeout: time.Second, Metrics: m, Debug: rc.F.Draw(3) == 1})
	usrv := startUDPServer(rc, w, udpServerOpts{Keys: keys, Timeout: time.Minute, Metrics: m})
	tgtIP := net.IPv4(93, 184, 216, 34).To4()
	startTarget(w, tgtIP, 7000, func(tc *targetConn) {
		buf := make([]byte, 4096)
		for {
			n, err := tc.C.Read(buf)
			if n > 0 {
				tc.C.Write(buf[:n])
			}
			if err != nil {
				break
			}
		}
		tc.C.Close()
	})
	pool := []string{"8.8.4.4", "2606:4700:4700::1001", "::ffff:151.101.65.69", "10.11.12.13", "fe80::1234:5678%eth0", "100.64.3.3", "192.168.77.88", "2a00:1450:4001:81b::200e"}
	nC := 1 + G.Draw(5)
	used := map[string]bool{}
	for i := 0; i < nC; i++ {
		ipt := pool[G.Draw(len(pool))]
		if used[ipt] {
			continue
		}
		used[ipt] = true
		a := netip.MustParseAddr(ipt)
		ip := net.IP(a.AsSlice())
		if a.Is4() {
			ip = ip.To4()
		}
		c := &c20client{port: fmt.Sprint(52000 + 11*i + G.Draw(7)), parsable: true, forms: ipForms(a), global: ip.IsGlobalUnicast()}
		var pn int
		fmt.Sscan(c.port, &pn)
		c.addr = &net.TCPAddr{IP: ip, Port: pn, Zone: a.Zone()}
		c.text = c.addr.String()
		switch {
		case !d.dbOn:
			c.want = []string{""}
			if a.Zone() != "" {
				c.want = []string{"", "XA"}
			}
		case a.Zone() != "":
			c.want = []string{"XA", "XL"}
		case !c.global:
			c.want = []string{"XL"}
		default:
			key := ip.String()
			switch G.Draw(3) {
			case 0:
				db.Errs[key] = true
				c.want = []string{"XD"}
				if G.Draw(2) == 0 {
					db.Answers[key] = ipinfo.IPInfo{CountryCode: "BR"}
					simrt.Probe("database_partial_failure")
				}
			case 1:
				c.want = []string{"ZZ"}
			default:
				cc := fmt.Sprintf("R%c", 'A'+i)
				db.Answers[key] = ipinfo.IPInfo{CountryCode: ipinfo.CountryCode(cc), ASN: ipinfo.ASN{Number: 64600 + i, Organization: fmt.Sprintf("Net %d", i)}}
				c.want, c.wantASN, c.wantOrg = []string{cc}, fmt.Sprint(64600+i), fmt.Sprintf("Net %d", i)
			}
		}
		if d.dbOn && len(c.want) == 1 && c.want[0] != "XL" && c20isPrivate(a) {
			c.altXL = true
		}
		d.clients = append(d.clients, c)
		rc.D("client %s want %v altXL=%v", c.text, c.want, c.altXL)
		key := keys[G.Draw(len(keys))]
		nConn := 1 + G.Draw(2)
		doUDP := G.Draw(2) == 0
		simrt.GoNamed(fmt.Sprintf("c20s-client-%d", i), func() {
			ta := c.addr.(*net.TCPAddr)
			c.morePorts = map[string]bool{fmt.Sprint(ta.Port + 5): true}
			for k := 0; k < nConn; k++ {
				c.morePorts[fmt.Sprint(ta.Port+k*1000)] = true
				cc, err := tsrv.W.Connect(&net.TCPAddr{IP: ta.IP, Port: ta.Port + k*1000, Zone: ta.Zone}, tsrv.IP, tsrv.Port)
				if err != nil {
					continue
				}
				c.nOpen++
				if x := G.Draw(4); x == 0 {
					cc.Write(payload(G, 60)) // a probe
				} else if x == 1 {
					// a probe whose client resets the connection while the server is absorbing it
					cc.Write(payload(G, 60))
					simrt.Sleep(time.Duration(1+G.Draw(200)) * time.Millisecond)
					cc.Write(payload(G, 10))
					cc.Abort()
					simrt.Probe("probe_reset_by_client")
					continue
				} else {
					enc := newEncoder(key)
					enc.Lazy(socksAddr(fmt.Sprintf("%s:7000", tgtIP)))
					cc.Write(enc.Chunk([]byte("hello")))
					simrt.Sleep(time.Duration(1+G.Draw(3)) * time.Second)
				}
				cc.CloseWrite()
				readAll(cc)
				cc.Close()
			}
			if doUDP {
				us, err := w.BindUDP(&net.UDPAddr{IP: ta.IP, Port: ta.Port + 5, Zone: ta.Zone})
				if err == nil {
					plain := append(socksAddr(fmt.Sprintf("%s:7001", tgtIP)), []byte("x")...)
					us.WriteToUDP(packUDP(key, plain), &net.UDPAddr{IP: proxyIP, Port: 9000})
					simrt.Sleep(time.Second)
					us.Close()
				}
			}
		})
	}
	simrt.Quiesce()
	tsrv.Stop()
	usrv.Stop()
	simrt.Quiesce()
	rc.Nontrivial = true
}

// c20f: the database changes its mind between two visits of one client (same
// address, same key, no overlap). "Every client address maps to exactly one
// location label": whatever label a visit gets (that depends on when an
// implementation consults the database, which the statement leaves open), it
// gets the same one in every family that carries a location. After the two
// visits, all location-labelled families therefore show the same set of
// locations for the only client of the run.
func init() {
	Register(&Scenario{Name: "c20f", Prop: "C20", MaxSteps: 50000, Run: runC20f})
}

func runC20f(rc *RunCtx) {
	G := rc.G
	db := &fakeIPInfo{Answers: map[string]ipinfo.IPInfo{}, Errs: map[string]bool{}}
	prom := newPromMetricsWith(rc, db)
	ip := net.IPv4(93, 184, 216, 77).To4()
	labels := []string{"XD", "ZZ", "QA", "QB"}
	set := func(st int) {
		delete(db.Errs, ip.String())
		delete(db.Answers, ip.String())
		switch st {
		case 0:
			db.Errs[ip.String()] = true
		case 2, 3:
			db.Answers[ip.String()] = ipinfo.IPInfo{CountryCode: ipinfo.CountryCode(labels[st]), ASN: ipinfo.ASN{Number: 64700 + st, Organization: "Flip Net"}}
		}
	}
	s1 := G.Draw(4)
	s2 := (s1 + 1 + G.Draw(3)) % 4
	key := "key-flip"
	local := &net.TCPAddr{IP: net.IPv4(203, 0, 113, 5), Port: 9000}
	visit := func(port int, d time.Duration) {
		tm := prom.AddOpenTCPConnection(&fakeConn{remote: &net.TCPAddr{IP: ip, Port: port}, local: local})
		tm.AddAuthenticated(key)
		simrt.Sleep(d)
		tm.AddClosed("OK", metrics.ProxyMetrics{ClientProxy: 100, ProxyTarget: 90, TargetProxy: 500, ProxyClient: 510}, d)
	}
	set(s1)
	visit(52001, time.Duration(1+G.Draw(5))*time.Second)
	if G.Draw(2) == 0 {
		simrt.Sleep(time.Duration(G.Draw(3)) * time.Second)
		collectFamilies(prom)
		simrt.Probe("scrape_between_the_visits")
	}
	simrt.Sleep(time.Duration(G.Draw(3)) * time.Second)
	set(s2)
	visit(52001+G.Draw(2), time.Duration(1+G.Draw(5))*time.Second)
	simrt.Sleep(time.Second)
	rc.Nontrivial = true
	rc.State(fmt.Sprintf("%s->%s", labels[s1], labels[s2]))
	// every family with a location label (collected directly: the registry's own
	// goroutines have no place inside a run)
	sets := map[string]string{} // family -> sorted locations with a non-zero sample
	{
		ch := make(chan prometheus.Metric, 100000)
		var panicked any
		func() {
			defer func() { panicked = recover() }()
			prom.Collect(ch)
		}()
		close(ch)
		if panicked != nil {
			rc.Inconclusive = append(rc.Inconclusive, "scrape-panicked")
			return
		}
		locs := map[string]map[string]bool{}
		for m := range ch {
			d := m.Desc().String()
			k := strings.Index(d, `fqName: "`)
			if k < 0 {
				continue
			}
			name := d[k+9:]
			name = name[:strings.Index(name, `"`)]
			var pb dto.Metric
			if m.Write(&pb) != nil {
				continue
			}
			loc, ok := labelsOf(&pb)["location"]
			if !ok {
				continue
			}
			if locs[name] == nil {
				locs[name] = map[string]bool{}
			}
			if pb.GetCounter().GetValue()+pb.GetGauge().GetValue()+float64(pb.GetHistogram().GetSampleCount()) != 0 {
				locs[name][loc] = true
			}
		}
		for name, l := range locs {
			if len(l) > 0 {
				sets[name] = strings.Join(simrt.SortedKeys(l), ",")
			}
		}
	}
	if len(sets) < 2 {
		rc.Inconclusive = append(rc.Inconclusive, "fewer-than-two-location-families")
		return
	}
	names := simrt.SortedKeys(sets)
	for _, n := range names[1:] {
		if sets[n] != sets[names[0]] {
			rc.Failf("one-address-two-labels", "the only client of the run, %s, visited twice (the database said %q, then %q): family %s has it under location(s) %s, family %s under %s", ip, labels[s1], labels[s2], names[0], sets[names[0]], n, sets[n])
			break
		}
	}
	rc.Phase = "done"
}
