package verifharness

import (
	"github.com/Jigsaw-Code/outline-ss-server/service"
	"github.com/Jigsaw-Code/outline-ss-server/verifrt/simnet"
)

func newPromMetrics(rc *RunCtx) service.ServiceMetrics { return nil }

func (r *udpRun) checkMetrics(assocs []*assoc, outSocks []*simnet.UDPConn, owner func(*simnet.UDPConn) *uClient) {
}

func (r *udpRun) checkStopped() {}
