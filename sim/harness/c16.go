package verifharness

import (
	"fmt"
	"sort"
	"strings"

	"github.com/Jigsaw-Code/outline-ss-server/ipinfo"
	outline_prometheus "github.com/Jigsaw-Code/outline-ss-server/prometheus"
	"github.com/Jigsaw-Code/outline-ss-server/service"
	"github.com/Jigsaw-Code/outline-ss-server/verifrt/simnet"
	"github.com/Jigsaw-Code/outline-ss-server/verifrt/simrt"
	"github.com/prometheus/client_golang/prometheus"
	dto "github.com/prometheus/client_model/go"
)

// promMetrics is the real Prometheus service-metrics collector.
type promMetrics interface {
	service.ServiceMetrics
	prometheus.Collector
}

func newPromMetricsWith(rc *RunCtx, ip2info ipinfo.IPInfoMap) promMetrics {
	m, err := outline_prometheus.NewServiceMetrics(ip2info)
	if err != nil {
		panic(err)
	}
	rc.Prom = m
	return m
}

func newPromMetrics(rc *RunCtx) service.ServiceMetrics { return newPromMetricsWith(rc, nil) }

// gather collects the real registry's families after the run (outside the bubble).
func gather(c prometheus.Collector) (map[string]*dto.MetricFamily, error) {
	reg := prometheus.NewPedanticRegistry()
	if err := reg.Register(c); err != nil {
		return nil, err
	}
	fams, err := reg.Gather()
	if err != nil {
		return nil, err
	}
	out := map[string]*dto.MetricFamily{}
	for _, f := range fams {
		out[f.GetName()] = f
	}
	return out, nil
}

func labelsOf(m *dto.Metric) map[string]string {
	o := map[string]string{}
	for _, l := range m.GetLabel() {
		o[l.GetName()] = l.GetValue()
	}
	return o
}

// sumCounter sums a counter family over metrics whose labels match want.
func sumCounter(f *dto.MetricFamily, want map[string]string) float64 {
	if f == nil {
		return 0
	}
	t := 0.0
	for _, m := range f.GetMetric() {
		ls := labelsOf(m)
		ok := true
		for k, v := range want {
			if ls[k] != v {
				ok = false
			}
		}
		if ok {
			t += m.GetCounter().GetValue()
		}
	}
	return t
}

// C16 — UDP metrics match the datagrams actually relayed.
func init() {
	Register(&Scenario{Name: "c16", Prop: "C16", MaxSteps: 100000, Run: func(rc *RunCtx) { runUDP(rc, "c16") }, Post: postC16})
}

func keyIDsFor(keys []*Key, k *Key) map[string]bool {
	m := map[string]bool{}
	for _, x := range keys {
		if sameCrypto(x, k) {
			m[x.ID] = true
		}
	}
	return m
}

func (r *udpRun) checkMetrics(assocs []*assoc, outSocks []*simnet.UDPConn, owner func(*simnet.UDPConn) *uClient) {
	rc := r.rc
	M := r.srv.M
	// one AddUDPNatEntry per association, in creation order
	if len(M.UDP) != len(assocs) {
		rc.Failf("nat-entry-count", "%d AddUDPNatEntry reports, the reference model has %d associations", len(M.UDP), len(assocs))
		return
	}
	for i, a := range assocs {
		rec := M.UDP[i]
		if rec.Client != a.client.addr.String() {
			rc.Failf("nat-entry-client", "association %d was reported for client %s, expected %s", i, rec.Client, a.client.addr)
			continue
		}
		if !keyIDsFor(r.keys, a.key)[rec.Key] {
			rc.Failf("nat-entry-key", "association of %s was reported with key %q, it was authenticated with %s", rec.Client, rec.Key, a.key)
		}
		// client -> target reports
		var got []UCall
		for _, c := range rec.Calls {
			if c.Kind == "fromclient" {
				got = append(got, c)
			}
		}
		if len(got) != len(a.fromClient) {
			rc.Failf("from-client-report-count", "association of %s: %d client datagrams arrived on it, %d AddPacketFromClient reports", rec.Client, len(a.fromClient), len(got))
		} else {
			for j, e := range a.fromClient {
				g := got[j]
				named := false
				for _, alt := range strings.Split(e.Status, "|") {
					named = named || strings.HasPrefix(g.Status, alt)
				}
				if !named {
					rc.Failf("from-client-status:"+e.Status+"->"+g.Status, "association of %s, datagram #%d: reported status %s, outcome was %s", rec.Client, j, g.Status, e.Status)
				}
				if g.A != e.A {
					rc.Failf("from-client-wire-size", "association of %s, datagram #%d: reported %d bytes from the client, wire size was %d", rec.Client, j, g.A, e.A)
				}
				if g.B != e.B {
					rc.Failf("from-client-payload-size", "association of %s, datagram #%d (status %s): reported %d bytes to the target, %d were sent", rec.Client, j, e.Status, g.B, e.B)
				}
			}
		}
		// target -> client reports: walk what the association's socket read
		var sk *simnet.UDPConn
		for _, s := range outSocks {
			if owner(s) == a.client {
				sk = s
			}
		}
		if sk == nil {
			continue
		}
		var gotT []UCall
		for _, c := range rec.Calls {
			if c.Kind == "fromtarget" {
				gotT = append(gotT, c)
			}
		}
		if len(gotT) != len(sk.ReadLog) {
			rc.Failf("from-target-report-count", "association of %s: its socket read %d target datagrams, %d AddPacketFromTarget reports", rec.Client, len(sk.ReadLog), len(gotT))
			continue
		}
		S, tag := a.key.EK.SaltSize(), a.key.EK.TagSize()
		// replies actually sent to this client, by payload id, in order
		sent := map[string][]int{}
		for _, d := range r.w.Dgrams {
			if d.FromSock == r.srv.Sock && d.To.String() == a.client.addr.String() {
				// wire layout: salt | addr | body | tag ; the id sits at the start of the body
				sent["*"] = append(sent["*"], len(d.Payload))
			}
		}
		okCount := 0
		for j, rd := range sk.ReadLog {
			g := gotT[j]
			wantA := sk.ReadNs[j] // what the read delivered (the server's buffer bounds it)
			if g.A != int64(wantA) {
				rc.Failf("from-target-payload-size", "association of %s, target datagram #%d: reported %d payload bytes, %d were received", rec.Client, j, g.A, wantA)
			}
			if g.Status == "OK" {
				alen := 19
				if rd.From.IP.To4() != nil {
					alen = 7
				}
				wantB := S + alen + wantA + tag
				if g.B != int64(wantB) {
					rc.Failf("from-target-wire-size", "association of %s, target datagram #%d: reported %d bytes to the client, wire size is %d", rec.Client, j, g.B, wantB)
				}
				if okCount >= len(sent["*"]) || sent["*"][okCount] != wantB {
					rc.Failf("from-target-ok-without-send", "association of %s, target datagram #%d: reported OK but the ledger shows no matching %d-byte datagram to the client", rec.Client, j, wantB)
				}
				okCount++
			} else if g.B != 0 {
				rc.Failf("from-target-failed-bytes", "association of %s, target datagram #%d: status %s but %d bytes reported to the client", rec.Client, j, g.Status, g.B)
			}
		}
		if okCount != len(sent["*"]) {
			rc.Failf("from-target-unreported-send", "association of %s: %d datagrams were sent to the client, %d were reported OK", rec.Client, len(sent["*"]), okCount)
		}
	}
}

// checkStopped runs after the packet listener was closed and the system idled.
func (r *udpRun) checkStopped() {
	for _, rec := range r.srv.M.UDP {
		if n := rec.count("remove"); n != 1 {
			r.rc.Failf("remove-report-count", "association of %s: RemoveNatEntry reported %d times by the time the listener was shut down and idle", rec.Client, n)
		}
	}
	r.rc.PostData = r.srv.M
}

func postC16(rc *RunCtx, res *simrt.Result) {
	M, _ := rc.PostData.(*RecMetrics)
	c, _ := rc.Prom.(prometheus.Collector)
	if M == nil || c == nil {
		return
	}
	fams, err := gather(c)
	if err != nil {
		rc.Failf("gather-failed", "Registry.Gather failed: %v", err)
		return
	}
	added := sumCounter(fams["udp_nat_entries_added"], nil)
	removed := sumCounter(fams["udp_nat_entries_removed"], nil)
	nrem := 0
	type kd struct{ key, dir string }
	want := map[kd]float64{}
	for _, rec := range M.UDP {
		nrem += rec.count("remove")
		for _, cl := range rec.Calls {
			switch cl.Kind {
			case "fromclient":
				want[kd{rec.Key, "c>p"}] += float64(cl.A)
				want[kd{rec.Key, "p>t"}] += float64(cl.B)
			case "fromtarget":
				want[kd{rec.Key, "p<t"}] += float64(cl.A)
				want[kd{rec.Key, "c<p"}] += float64(cl.B)
			}
		}
	}
	if int(added) != len(M.UDP) {
		rc.Failf("gathered-nat-added", "udp_nat_entries_added = %v, %d associations were reported", added, len(M.UDP))
	}
	if int(removed) != nrem {
		rc.Failf("gathered-nat-removed", "udp_nat_entries_removed = %v, %d removals were reported", removed, nrem)
	}
	var ks []kd
	for k := range want {
		ks = append(ks, k)
	}
	sort.Slice(ks, func(i, j int) bool { return ks[i].key+ks[i].dir < ks[j].key+ks[j].dir })
	for _, k := range ks {
		got := sumCounter(fams["data_bytes"], map[string]string{"proto": "udp", "dir": k.dir, "access_key": k.key})
		if got != want[k] {
			rc.Failf("gathered-data-bytes:"+k.dir, "data_bytes{proto=udp,dir=%s,access_key=%s} = %v, the reported datagrams sum to %v", k.dir, k.key, got, want[k])
		}
	}
	tot := sumCounter(fams["data_bytes"], map[string]string{"proto": "udp"})
	wt := 0.0
	for _, v := range want {
		wt += v
	}
	if tot != wt {
		rc.Failf("gathered-data-bytes-total", "data_bytes{proto=udp} sums to %v, the reported datagrams sum to %v", tot, wt)
	}
	_ = fmt.Sprint
}
