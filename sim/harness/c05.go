package verifharness

import (
	"fmt"
	"net"
	"net/netip"
	"strings"
	"time"

	"github.com/Jigsaw-Code/outline-ss-server/verifrt/simnet"
	"github.com/Jigsaw-Code/outline-ss-server/verifrt/simrt"
)

// C05 — the proxy never sends traffic to non-public destinations.
func init() {
	Register(&Scenario{Name: "c05", Prop: "C05", MaxSteps: 200000, Run: runC05})
}

// The property's MUST-NOT classes.
var c05MustNot = []struct{ pfx, why string }{
	{"127.0.0.0/8", "loopback"}, {"::1/128", "loopback"},
	{"0.0.0.0/32", "unspecified"}, {"::/128", "unspecified"},
	{"169.254.0.0/16", "link-local"}, {"fe80::/10", "link-local"},
	{"224.0.0.0/4", "multicast"}, {"ff00::/8", "multicast"},
	{"255.255.255.255/32", "broadcast"},
	{"10.0.0.0/8", "rfc1918"}, {"172.16.0.0/12", "rfc1918"}, {"192.168.0.0/16", "rfc1918"},
	{"100.64.0.0/10", "cgnat"},
	{"fc00::/7", "unique-local"},
}

// Every other special-purpose block of the IANA IPv4/IPv6 special-purpose
// registries: neither MUST-NOT nor "ordinary public" — don't care.
var c05Special = []string{
	"0.0.0.0/8", "192.0.0.0/24", "192.0.2.0/24", "192.31.196.0/24", "192.52.193.0/24", "192.88.99.0/24", "192.175.48.0/24",
	"198.18.0.0/15", "198.51.100.0/24", "203.0.113.0/24", "240.0.0.0/4",
	"64:ff9b::/96", "64:ff9b:1::/48", "100::/64", "2001::/23", "2001:db8::/32", "2002::/16", "2620:4f:8000::/48", "3fff::/20", "5f00::/16",
}

func c05class(ip net.IP) string {
	a, ok := netip.AddrFromSlice(ip)
	if !ok {
		return "mustnot:unspecified"
	}
	a = a.Unmap()
	for _, m := range c05MustNot {
		if netip.MustParsePrefix(m.pfx).Contains(a) {
			return "mustnot:" + m.why
		}
	}
	for _, p := range c05Special {
		if netip.MustParsePrefix(p).Contains(a) {
			return "dontcare"
		}
	}
	if a.Is6() && !netip.MustParsePrefix("2000::/3").Contains(a) {
		return "dontcare" // not global unicast space at all
	}
	return "allow"
}

type c05dest struct {
	str      string // SOCKS address text ("host:port")
	label    string
	scripted [][]net.IP
}

// genDest draws a destination with boundary bias.
func c05genDest(G *simrt.Tape, i int) c05dest {
	port := 1000 + i
	edge := func(pfx string) net.IP {
		p := netip.MustParsePrefix(pfx)
		first := p.Masked().Addr()
		// last address of the prefix
		b := first.AsSlice()
		bits := p.Bits()
		for k := bits; k < len(b)*8; k++ {
			b[k/8] |= 1 << uint(7-k%8)
		}
		last, _ := netip.AddrFromSlice(b)
		switch G.Draw(5) {
		case 0:
			return net.IP(first.AsSlice())
		case 1:
			return net.IP(last.AsSlice())
		case 2:
			if pr := first.Prev(); pr.IsValid() {
				return net.IP(pr.AsSlice())
			}
			return net.IP(first.AsSlice())
		case 3:
			if nx := last.Next(); nx.IsValid() {
				return net.IP(nx.AsSlice())
			}
			return net.IP(last.AsSlice())
		default: // random member
			rb := G.Bytes(len(b))
			fb := first.AsSlice()
			for k := bits; k < len(b)*8; k++ {
				if rb[k/8]&(1<<uint(7-k%8)) != 0 {
					fb[k/8] |= 1 << uint(7-k%8)
				}
			}
			return net.IP(fb)
		}
	}
	var ip net.IP
	switch G.Draw(5) {
	case 0, 1:
		ip = edge(c05MustNot[G.Draw(len(c05MustNot))].pfx)
	case 2:
		ip = edge(c05Special[G.Draw(len(c05Special))])
	case 3:
		ip = net.IP(G.Bytes(4))
	default:
		b := G.Bytes(16)
		if G.Draw(2) == 0 {
			b[0] = 0x20 | b[0]&0x1f // inside 2000::/3
		}
		ip = net.IP(b)
	}
	d := c05dest{}
	form := G.Draw(8)
	is4 := ip.To4() != nil
	switch {
	case form == 0 && is4: // IPv4-mapped IPv6 address (type 4)
		d.str = fmt.Sprintf("RAW6:[::ffff:%s]:%d", ip.To4(), port)
		d.label = "mapped"
	case form == 1: // IP literal carried as a domain name (type 3)
		d.str = "DOMAIN:" + net.JoinHostPort(ip.String(), fmt.Sprint(port))
		d.label = "literal-domain"
	case form == 2: // empty domain name
		d.str = "DOMAIN:" + fmt.Sprintf(":%d", port)
		d.label = "empty-domain"
	case form == 3 || form == 4: // host name with scripted answers
		host := fmt.Sprintf("h%d.example.net", i)
		pub := net.IPv4(93, 184, 216, byte(1+G.Draw(200))).To4()
		pub6 := net.ParseIP("2606:2800:220:1::1")
		switch G.Draw(6) {
		case 0:
			d.scripted = [][]net.IP{{ip}}
		case 1:
			d.scripted = [][]net.IP{{pub, ip}}
		case 2:
			d.scripted = [][]net.IP{{ip, pub}}
		case 3: // rebinding: public first, then the drawn address
			d.scripted = [][]net.IP{{pub}, {ip}}
		case 4:
			d.scripted = [][]net.IP{{pub6, ip, pub}}
		default:
			d.scripted = [][]net.IP{{ip}, {pub}}
		}
		d.str = fmt.Sprintf("%s:%d", host, port)
		d.label = "hostname"
	default:
		d.str = net.JoinHostPort(ip.String(), fmt.Sprint(port))
		d.label = "ip"
	}
	return d
}

// c05socks encodes a destination; "DOMAIN:" forces the domain-name encoding.
func c05socks(s string) []byte {
	if strings.HasPrefix(s, "DOMAIN:") {
		hp := s[len("DOMAIN:"):]
		host, port, _ := net.SplitHostPort(hp)
		var pn int
		fmt.Sscanf(port, "%d", &pn)
		b := []byte{3, byte(len(host))}
		b = append(b, host...)
		return append(b, byte(pn>>8), byte(pn))
	}
	if strings.HasPrefix(s, "RAW6:") { // 16-byte form (type 4) whatever the address
		host, port, _ := net.SplitHostPort(s[len("RAW6:"):])
		var pn int
		fmt.Sscanf(port, "%d", &pn)
		b := append([]byte{4}, net.ParseIP(host).To16()...)
		return append(b, byte(pn>>8), byte(pn))
	}
	return socksAddr(s)
}

// c05literal returns the IP a destination text names literally (nil for host names).
func c05literal(str string) net.IP {
	str = strings.TrimPrefix(strings.TrimPrefix(str, "DOMAIN:"), "RAW6:")
	host, _, _ := net.SplitHostPort(str)
	return net.ParseIP(host)
}

func runC05(rc *RunCtx) {
	G := rc.G
	w := simnet.NewWorld()
	keys := genKeys(G, 1+G.Draw(3), "")
	mu := &RecMetrics{}
	usrv := startUDPServer(rc, w, udpServerOpts{Keys: keys, Timeout: 5 * time.Minute, Metrics: mu})
	tsrv := startTCPServer(rc, w, tcpServerOpts{Keys: keys, Timeout: time.Second, Debug: rc.F.Draw(3) == 1})
	nU := 1 + G.Draw(10)
	nT := G.Draw(6)
	var dests []c05dest
	for i := 0; i < nU+nT; i++ {
		d := c05genDest(G, i)
		if i > 0 && i < nU && G.Draw(3) == 0 {
			// the same destination again on the same association (a refused one must stay refused)
			d = dests[G.Draw(i)]
			d.scripted = nil
			simrt.Probe("udp_destination_repeated")
		}
		if d.scripted != nil {
			host, _, _ := net.SplitHostPort(d.str)
			w.Script(host, d.scripted...)
		}
		dests = append(dests, d)
		kind := "udp"
		if i >= nU {
			kind = "tcp"
		}
		rc.D("%s dest %d: %s (%s) answers=%v", kind, i, d.str, d.label, d.scripted)
	}
	key := keys[0]
	// UDP: one client, the k-th datagram goes to dests[k] (first and later positions of one association)
	csock, _ := w.BindUDP(&net.UDPAddr{IP: net.IPv4(198, 18, 3, 3).To4(), Port: 6200})
	simrt.GoNamed("c05-udp-client", func() {
		for i := 0; i < nU; i++ {
			plain := append(c05socks(dests[i].str), []byte(fmt.Sprintf("u%d|x", i))...)
			csock.WriteToUDP(packUDP(key, plain), &net.UDPAddr{IP: proxyIP, Port: 9000})
			if G.Draw(3) == 0 {
				simrt.Yield()
			}
		}
	})
	type tconn struct {
		i    int
		c    *simnet.TCPConn
		done bool
	}
	var tcs []*tconn
	for i := nU; i < nU+nT; i++ {
		tc := &tconn{i: i}
		tcs = append(tcs, tc)
		simrt.GoNamed(fmt.Sprintf("c05-tcp-client-%d", i), func() {
			cc, err := tsrv.connect(net.IPv4(198, 18, 3, byte(10+tc.i)).To4(), 22000+tc.i)
			if err != nil {
				tc.done = true
				return
			}
			tc.c = cc
			enc := newEncoder(key)
			cc.Write(enc.Chunk(append(c05socks(dests[tc.i].str), []byte("hello")...)))
			simrt.Sleep(10 * time.Millisecond)
			cc.CloseWrite()
			readAll(cc)
			cc.Close()
			tc.done = true
		})
	}
	simrt.Quiesce()
	rc.Phase = "check"
	// ---- MUST-NOT: look at every address traffic was actually sent to ----
	for _, d := range w.Dgrams {
		if d.FromSock.Foreign || d.FromSock == usrv.Sock {
			continue
		}
		cl := c05class(d.To.IP)
		rc.Probe("udp_sent:" + cl)
		if strings.HasPrefix(cl, "mustnot:") {
			rc.Failf("udp-to-nonpublic:"+cl[8:], "proxy sent a UDP datagram (%q) to %v, which is %s", d.Payload[:minInt(8, len(d.Payload))], d.To, cl[8:])
		}
	}
	for _, d := range w.Dials {
		if d.Control != nil {
			rc.Probe("tcp_blocked:" + c05class(d.IP))
			continue
		}
		cl := c05class(d.IP)
		rc.Probe("tcp_dialed:" + cl)
		if strings.HasPrefix(cl, "mustnot:") {
			rc.Failf("tcp-to-nonpublic:"+cl[8:], "proxy opened a TCP connection to %v:%d (requested %q), which is %s", d.IP, d.Port, d.Addr, cl[8:])
		}
	}
	// ---- MUST-ALLOW: ordinary public addresses are not rejected ----
	// (ground truth is the ledger: was the datagram forwarded, was the address dialed)
	fwd := map[int]bool{}
	for _, d := range w.Dgrams {
		if !d.FromSock.Foreign && d.FromSock != usrv.Sock {
			var k int
			if n, _ := fmt.Sscanf(idOf(d.Payload), "u%d", &k); n == 1 {
				fwd[k] = true
			}
		}
	}
	for i := 0; i < nU; i++ {
		d := dests[i]
		if d.label == "ip" || d.label == "literal-domain" {
			if ip := c05literal(d.str); ip != nil && c05class(ip) == "allow" && !fwd[i] {
				rc.Failf("udp-public-not-forwarded", "datagram %d to ordinary public address %s was not forwarded", i, d.str)
			}
		}
	}
	for _, tc := range tcs {
		if tc.c == nil {
			continue
		}
		d := dests[tc.i]
		if !(d.label == "ip" || d.label == "literal-domain") {
			continue
		}
		ip := c05literal(d.str)
		if ip == nil || c05class(ip) != "allow" {
			continue
		}
		dialed := false
		for _, dr := range w.Dials {
			if dr.Control == nil && dr.Port == 1000+tc.i && dr.IP.Equal(ip) {
				dialed = true
			}
		}
		if !dialed {
			rc.Failf("tcp-public-rejected", "connection %d to ordinary public address %s: the address was never dialed", tc.i, d.str)
		}
	}
	rc.Nontrivial = true
	tsrv.Stop()
	usrv.Stop()
	csock.Close()
	simrt.Quiesce()
	rc.Phase = "done"
}
