package verifharness

import (
	"fmt"
	"net"
	"time"

	"github.com/Jigsaw-Code/outline-ss-server/verifrt/simnet"
	"github.com/Jigsaw-Code/outline-ss-server/verifrt/simrt"
)

// C07 (system part) — a replayed handshake is refused on any listener or
// service of the process and across configuration reloads.
func init() {
	Register(&Scenario{Name: "c07s", Prop: "C07", MaxSteps: 1000000, Run: runC07s})
}

func runC07s(rc *RunCtx) {
	G := rc.G
	shared := uniqueCrypto(genKeys(G, 1+G.Draw(2), "shared-"))
	other := genKeys(G, 1+G.Draw(2), "other-")
	mk := func(v int) *mCfg {
		c := &mCfg{}
		// two services that both carry the shared keys (same id, cipher and secret)
		nL := []int{1 + G.Draw(2), 1 + G.Draw(2)}
		port := 9000
		for s := 0; s < 2; s++ {
			var sv mSvc
			for l := 0; l < nL[s]; l++ {
				sv.Listeners = append(sv.Listeners, mLn{"tcp", fmt.Sprintf(mainAddrs[G.Draw(2)], port)})
				port++
			}
			sv.Keys = append(sv.Keys, shared...)
			if G.Draw(2) == 0 {
				sv.Keys = append(sv.Keys, other[G.Draw(len(other))])
			}
			c.Services = append(c.Services, sv)
		}
		if G.Draw(3) == 0 {
			for _, k := range shared {
				c.Legacy = append(c.Legacy, mLegacy{9100, k})
			}
		}
		return c
	}
	cfg := mk(0)
	N := []int{0, 1, 2, 3, 5, 8, 50, 1000}[G.Draw(8)]
	rc.D("history %d; config %s", N, describeCfg(cfg))
	ms, err := newMainSim(rc, N, cfg)
	if err != nil {
		rc.Failf("valid-config-rejected", "initial configuration failed to load: %v", err)
		return
	}
	tcpAddrs := func(c *mCfg) []string {
		var out []string
		for _, o := range c.owners() {
			if o.ln.Type == "tcp" && o.expect(shared[0]) != "" {
				out = append(out, o.ln.Addr)
			}
		}
		return out
	}
	type rec struct {
		wire   []byte
		key    *Key
		checks int // value of the global check counter when it was last presented
	}
	var seen []*rec
	checks := 0 // authenticated handshakes the server has checked so far
	nOps := 2 + G.Draw(8)
	if G.Draw(3) == 0 {
		nOps = 8 + G.Draw(10) // long enough for a replay from the far end of a small history
	}
	for op := 0; op < nOps; op++ {
		addrs := tcpAddrs(cfg)
		addr := addrs[G.Draw(len(addrs))]
		switch x := G.Draw(6); {
		case x == 0:
			// reload: same services, possibly other listeners/ordering
			cfg = mk(op + 1)
			if err := ms.reload(cfg, false); err != nil {
				rc.Failf("valid-reload-failed", "reload failed: %v", err)
				return
			}
			rc.D("op %d: reload -> %s", op, describeCfg(cfg))
		case x <= 2 || len(seen) == 0:
			k := shared[G.Draw(len(shared))]
			d0 := len(ms.W.Dials)
			res := ms.probeTCP(addr, k, nil)
			checks++
			if len(ms.W.Dials) == d0 && !freshRefusalExcused(rc, k, res.wire) {
				rc.Failf("fresh-handshake-refused:"+res.status, "op %d: a never-seen handshake under %s on %s was not served (no dial; status %s, history %d)", op, k.ID, addr, res.status, N)
			}
			seen = append(seen, &rec{wire: res.wire, key: k, checks: checks})
			rc.D("op %d: fresh handshake under %s on %s -> %s", op, k.ID, addr, res.status)
		case x == 3 && len(seen) > 0:
			// two concurrent copies of a fresh handshake on (possibly) different listeners
			k := shared[G.Draw(len(shared))]
			enc := newEncoder(k)
			wire := enc.Chunk(socksAddr(unreachableTarget))
			addr2 := addrs[G.Draw(len(addrs))]
			var r1, r2 *probeResult
			var d1, d2 flag
			dials0 := len(ms.W.Dials)
			simrt.GoNamed("copy-a", func() { r1 = ms.probeTCP(addr, k, wire); d1.Set() })
			simrt.GoNamed("copy-b", func() { r2 = ms.probeTCP(addr2, k, wire); d2.Set() })
			d1.Wait()
			d2.Wait()
			checks += 2
			served := len(ms.W.Dials) - dials0 // ground truth: a served copy dials its target
			rc.Probe("concurrent_copies_across_listeners")
			if N > 0 && served != 1 {
				rc.Failf(fmt.Sprintf("concurrent-copies-served:%d", served), "op %d: two concurrent copies of one handshake on %s and %s (history %d): %d were served (statuses %s, %s); exactly one must be", op, addr, addr2, N, served, r1.status, r2.status)
			}
			seen = append(seen, &rec{wire: wire, key: k, checks: checks})
		default:
			// replay of an earlier handshake, on any listener of any service, possibly after reloads
			r := seen[G.Draw(len(seen))]
			if G.Draw(3) == 0 {
				r = seen[0] // the one presented longest ago
			}
			between := checks - r.checks
			dr := len(ms.W.Dials)
			if N > 0 && between <= N-1 && G.Draw(4) == 0 {
				// "treated exactly like an invalid probe", as a prober sees it: the replay
				// and a same-sized piece of noise are presented side by side, both some
				// time after connecting, both keeping their side open. Whatever the server
				// does with the noise (the matter of C06), it does the same with the replay,
				// at the same time.
				d := []time.Duration{5 * time.Second, 20 * time.Second, 40 * time.Second}[G.Draw(3)]
				noise := payload(G, len(r.wire))
				var e1, e2 time.Duration
				var c1, c2 *simnet.TCPConn
				var f1, f2 flag
				simrt.GoNamed("slow-replay", func() { e1, c1 = ms.slowProbe(addr, r.wire, d); f1.Set() })
				simrt.GoNamed("slow-noise", func() { e2, c2 = ms.slowProbe(addr, noise, d); f2.Set() })
				f1.Wait()
				f2.Wait()
				checks++
				r.checks = checks
				rc.Probe("slow_replay_next_to_noise")
				if c1 == nil || c2 == nil {
					continue
				}
				if len(ms.W.Dials) > dr {
					rc.Failf("replay-served", "op %d: a handshake presented again on %s after %d other handshakes (history %d) was served again (target dialed)", op, addr, between, N)
					continue
				}
				_, rst1 := c1.Has("rst-recv")
				_, rst2 := c2.Has("rst-recv")
				w1, w2 := len(c1.Peer().Wrote), len(c2.Peer().Wrote)
				diff := e1 - e2
				if diff < 0 {
					diff = -diff
				}
				if rst1 != rst2 || w1 != w2 || diff > time.Second {
					rc.Failf("replay-distinguishable-from-probe", "op %d: a replayed handshake and %d bytes of noise, both sent %v after connecting to %s and left open: the replay was closed after %v (reset=%v, %d bytes written back), the noise after %v (reset=%v, %d bytes written back)", op, len(noise), d, addr, e1, rst1, w1, e2, rst2, w2)
				}
				continue
			}
			res := ms.probeTCP(addr, r.key, r.wire)
			checks++
			servedAgain := len(ms.W.Dials) > dr
			rc.D("op %d: replay on %s after %d other checks -> %s", op, addr, between, res.status)
			if N > 0 && between <= N-1 {
				rc.Probe("replay_within_window")
				if servedAgain {
					rc.Failf("replay-served", "op %d: a handshake presented again on %s after %d other handshakes (history %d, across listeners/services/reloads of one process) was served again (target dialed; status %s)", op, addr, between, N, res.status)
				} else {
					se := res.conn.Peer()
					if len(se.Wrote) != 0 {
						rc.Failf("replay-answered", "op %d: the server wrote %d bytes to a replayed handshake", op, len(se.Wrote))
					}
					if _, rst := res.conn.Has("rst-recv"); rst {
						rc.Failf("replay-reset", "op %d: the replayed connection was reset instead of being absorbed like a probe", op)
					}
				}
			}
			r.checks = checks
		}
	}
	// every served handshake dials once; refused ones never
	rc.Nontrivial = true
	ms.Srv.StopForVerif()
	simrt.Quiesce()
	rc.Phase = "done"
}

// c07r — history-size changes while a service is running: the replay history
// of a live authenticator (real TCP handshakes through the real handler) is
// resized up and down between presentations, starting from 0 in a third of the
// runs. A handshake presented again while fewer than N other handshakes were
// checked since (N = the smallest history size in force in between) is refused.
func init() {
	Register(&Scenario{Name: "c07r", Prop: "C07", MaxSteps: 400000, Run: runC07r})
}

func runC07r(rc *RunCtx) {
	G := rc.G
	w := simnet.NewWorld()
	keys := uniqueCrypto(genKeys(G, 1+G.Draw(3), ""))
	sizes := []int{0, 1, 2, 5, 50}
	cur := sizes[G.Draw(len(sizes))]
	if G.Draw(3) == 0 {
		cur = 0
	}
	srv := startTCPServer(rc, w, tcpServerOpts{Keys: keys, Replay: cur, Timeout: 100 * time.Millisecond, UseSvc: G.Draw(2) == 0, Debug: rc.F.Draw(3) == 1})
	tgtIP := net.IPv4(93, 184, 216, 34).To4()
	startTarget(w, tgtIP, 7000, func(tc *targetConn) {
		readAll(tc.C)
		tc.C.Close()
	})
	type rec struct {
		wire   []byte
		key    *Key
		at     int // check counter at its last presentation
		minCap int // smallest history size in force since then
	}
	var seen []*rec
	checks := 0
	present := func(k *Key, wire []byte) (served bool) {
		d0 := len(w.Dials)
		cc, err := srv.connect(net.IPv4(198, 18, 70, byte(1+checks%200)).To4(), 26000+checks)
		if err != nil {
			return false
		}
		cc.Write(wire)
		cc.CloseWrite()
		readAll(cc)
		cc.Close()
		return len(w.Dials) > d0
	}
	nOps := 3 + G.Draw(10)
	for op := 0; op < nOps; op++ {
		switch x := G.Draw(5); {
		case x == 0:
			n := sizes[G.Draw(len(sizes))]
			if err := srv.Replay.Resize(n); err == nil {
				cur = n
				for _, r := range seen {
					if n < r.minCap {
						r.minCap = n
					}
				}
				rc.D("op %d: resize to %d", op, n)
				rc.Probe("history_resized_under_running_service")
			}
		case x <= 2 || len(seen) == 0:
			k := keys[G.Draw(len(keys))]
			enc := newEncoder(k)
			wire := enc.Chunk(socksAddr(fmt.Sprintf("%s:7000", tgtIP)))
			served := present(k, wire)
			checks++
			if !served && !freshRefusalExcused(rc, k, wire) {
				rc.Failf("fresh-handshake-refused", "op %d: a never-seen handshake under %s was not served (history %d)", op, k.ID, cur)
			}
			seen = append(seen, &rec{wire: wire, key: k, at: checks, minCap: cur})
		default:
			r := seen[G.Draw(len(seen))]
			between := checks - r.at
			served := present(r.key, r.wire)
			checks++
			if r.minCap > 0 && between < r.minCap {
				rc.Probe("replay_within_window_after_resizes")
				if served {
					rc.Failf("replay-served", "op %d: a handshake presented again after %d other handshakes was served again; the history size was never below %d since its last presentation (now %d)", op, between, r.minCap, cur)
				}
			}
			r.at, r.minCap = checks, cur
		}
	}
	rc.Nontrivial = true
	srv.Stop()
	simrt.Quiesce()
	rc.Phase = "done"
}
