package verifharness

import (
	"container/list"
	"fmt"
	"net/netip"
	"strconv"
	"strings"
	"time"

	"github.com/Jigsaw-Code/outline-ss-server/service"
	"github.com/Jigsaw-Code/outline-ss-server/verifrt/simrt"
	"github.com/anishathalye/porcupine"
)

// C19 — shared server state is free of data races under concurrent use.
//
// The scenarios below are run in a binary built with -race. The scheduler's own
// hand-off is hidden from the race detector (runtime.RaceDisable around it) and
// simsync emits the acquire/release edges of the real sync primitives, so the
// detector sees exactly the program's own synchronisation although tasks run
// one at a time on a replayable schedule. Race reports are collected by the
// driver from the detector's log; the scenarios themselves add the
// "equal to some sequential order" half with porcupine.
func init() {
	Register(&Scenario{Name: "c19replay", Prop: "C19", MaxSteps: 400000, Run: func(rc *RunCtx) { runC07c(quiet(rc), true) }, Post: postC19Replay})
	Register(&Scenario{Name: "c19keys", Prop: "C19", MaxSteps: 100000, Run: runC19Keys, Post: postC19Keys})
	Register(&Scenario{Name: "c19nat", Prop: "C19", MaxSteps: 100000, Tick: true, Run: func(rc *RunCtx) {
		if rc.G.Draw(2) == 0 {
			runUDP(quiet(rc), "c03")
		} else {
			runC14(quiet(rc)) // expiry, fast close and shutdown paths of the association table
		}
	}})
	Register(&Scenario{Name: "c19met", Prop: "C19", MaxSteps: 100000, Tick: true, Run: func(rc *RunCtx) { runC17(quiet(rc)) }})
	Register(&Scenario{Name: "c19tcp", Prop: "C19", MaxSteps: 200000, Run: func(rc *RunCtx) {
		if rc.G.Draw(2) == 0 {
			runC02(quiet(rc))
		} else {
			runC01(quiet(rc))
		}
	}})
	Register(&Scenario{Name: "c19lst", Prop: "C19", MaxSteps: 100000, Run: func(rc *RunCtx) {
		switch rc.G.Draw(3) {
		case 0:
			runC12Stream(quiet(rc))
		case 1:
			runC12Packet(quiet(rc))
		default:
			runC13(quiet(rc))
		}
	}})
}

// quiet returns a view of rc whose functional violations are dropped: under
// C19 only race reports and linearizability count; the functional oracles of
// the borrowed run shapes belong to other properties.
func quiet(rc *RunCtx) *RunCtx {
	rc.Muted = true
	return rc
}

// ---------- replay history: linearizability against the specification ----------

type c07hist struct {
	initial int
	calls   []*c07call
	resizes []*c07call
}

type rhIn struct {
	resize int // >=0: Resize(n)
	hs     int
}

func postC19Replay(rc *RunCtx, res *simrt.Result) {
	h, _ := rc.PostData.(*c07hist)
	if h == nil || len(h.calls)+len(h.resizes) > 150 || len(h.calls) == 0 {
		return
	}
	var ops []porcupine.Operation
	for _, c := range h.calls {
		if c.ret == 0 {
			return
		}
		ops = append(ops, porcupine.Operation{ClientId: c.task + 1, Input: rhIn{resize: -1, hs: c.hs}, Call: int64(c.inv), Output: c.res, Return: int64(c.ret)})
	}
	for _, c := range h.resizes {
		if c.ret == 0 {
			return
		}
		ops = append(ops, porcupine.Operation{ClientId: 0, Input: rhIn{resize: c.resize}, Call: int64(c.inv), Output: true, Return: int64(c.ret)})
	}
	// State: "cap;tok;tok;..." where tok is "h<i>" (a check) or "r<n>" (a resize).
	model := porcupine.Model{
		Init: func() interface{} { return "c" + strconv.Itoa(h.initial) },
		Step: func(state, input, output interface{}) (bool, interface{}) {
			st := state.(string)
			in := input.(rhIn)
			if in.resize >= 0 {
				return true, st + ";r" + strconv.Itoa(in.resize)
			}
			toks := strings.Split(st, ";")
			cur, _ := strconv.Atoi(toks[0][1:])
			// walk forward, remembering the capacity in force and the last sighting of hs
			lastSeen := -1
			minCapSince := -1
			between := 0
			me := "h" + strconv.Itoa(in.hs)
			for i := 1; i < len(toks); i++ {
				t := toks[i]
				if t[0] == 'r' {
					cur, _ = strconv.Atoi(t[1:])
					if lastSeen >= 0 && cur < minCapSince {
						minCapSince = cur
					}
					continue
				}
				if t == me {
					lastSeen = i
					minCapSince = cur
					between = 0
				} else if lastSeen >= 0 {
					between++
				}
			}
			got := output.(bool)
			ok := true
			switch {
			case lastSeen < 0:
				// never seen: must be accepted (collisions are 2^-32 and would show up as Illegal;
				// the component scenario of C07 excuses them statistically, here they are ignored)
				ok = got || cur > 0
				if cur == 0 {
					ok = got
				}
			case cur == 0 && minCapSince == 0:
				ok = got // disabled throughout: always accepted
			case minCapSince > 0 && between <= minCapSince:
				ok = !got // must be refused
			}
			return ok, st + ";" + me
		},
		Equal: func(a, b interface{}) bool { return a.(string) == b.(string) },
	}
	r := porcupine.CheckOperationsTimeout(model, ops, 5*time.Second)
	switch r {
	case porcupine.Illegal:
		rc.Failf("replay-history-not-linearizable", "a concurrent history of %d Add and %d Resize calls on the replay history is not equal to any sequential order allowed by the 'most recent N' specification", len(h.calls), len(h.resizes))
	case porcupine.Unknown:
		rc.Inconclusive = append(rc.Inconclusive, "porcupine-timeout")
	default:
		rc.Nontrivial = true
	}
}

// ---------- key list: linearizability against the sequential MRU list ----------

type klIn struct {
	kind string // snap, mark, update
	ip   string
	ver  int
	id   string
}

type klCall struct {
	inv, ret int
	task     int
	in       klIn
	out      string
}

type klHist struct {
	vers  [][]string
	calls []*klCall
}

func runC19Keys(rc *RunCtx) {
	G := rc.G
	nVer := 1 + G.Draw(3)
	nKeys := 1 + G.Draw(6)
	h := &klHist{}
	lists := make([]*list.List, nVer)
	elems := make([]map[string]*list.Element, nVer)
	for v := 0; v < nVer; v++ {
		var ks []*Key
		var ids []string
		for i := 0; i < nKeys; i++ {
			if v == 0 || G.Draw(3) != 0 {
				id := fmt.Sprintf("k%d", i)
				ks = append(ks, mkKey(id, cipherNames[i%4], "s"+id))
				ids = append(ids, id)
			}
		}
		if len(ks) == 0 {
			ks = append(ks, mkKey("k0", cipherNames[0], "sk0"))
			ids = []string{"k0"}
		}
		l := mkCipherList(ks)
		lists[v] = l
		elems[v] = map[string]*list.Element{}
		for e := l.Front(); e != nil; e = e.Next() {
			elems[v][e.Value.(*service.CipherEntry).ID] = e
		}
		h.vers = append(h.vers, ids)
	}
	cl := service.NewCipherList()
	cl.Update(lists[0])
	stamp := 0
	ips := []string{"198.18.0.1", "198.18.0.2", "2001:db8::1"}
	nTasks := 2 + G.Draw(3)
	installed := []int{0} // versions whose Update has returned (elements can only come from these)
	nextVer := 1
	for t := 0; t < nTasks; t++ {
		t := t
		n := 1 + G.Draw(6)
		simrt.GoNamed(fmt.Sprintf("keys-%d", t), func() {
			for k := 0; k < n; k++ {
				c := &klCall{task: t}
				switch x := G.Draw(6); {
				case x == 0 && nextVer < nVer:
					v := nextVer
					nextVer++
					c.in = klIn{kind: "update", ver: v}
					stamp++
					c.inv = stamp
					h.calls = append(h.calls, c)
					cl.Update(lists[v])
					installed = append(installed, v)
				case x <= 2:
					v := installed[len(installed)-1]
					if G.Draw(4) == 0 {
						v = installed[G.Draw(len(installed))] // possibly an element of a replaced list
					}
					id := h.vers[v][G.Draw(len(h.vers[v]))]
					ip := ips[G.Draw(len(ips))]
					c.in = klIn{kind: "mark", ver: v, id: id, ip: ip}
					stamp++
					c.inv = stamp
					h.calls = append(h.calls, c)
					cl.MarkUsedByClientIP(elems[v][id], netip.MustParseAddr(ip))
				default:
					ip := ips[G.Draw(len(ips))]
					c.in = klIn{kind: "snap", ip: ip}
					stamp++
					c.inv = stamp
					h.calls = append(h.calls, c)
					snap := cl.SnapshotForClientIP(netip.MustParseAddr(ip))
					var ids []string
					for _, e := range snap {
						if e == nil {
							ids = append(ids, "<nil>")
							continue
						}
						ids = append(ids, e.Value.(*service.CipherEntry).ID)
					}
					c.out = strings.Join(ids, ",")
				}
				stamp++
				c.ret = stamp
			}
		})
	}
	simrt.Quiesce()
	rc.PostData = h
}

func postC19Keys(rc *RunCtx, res *simrt.Result) {
	h, _ := rc.PostData.(*klHist)
	if h == nil || len(h.calls) == 0 || len(h.calls) > 60 {
		return
	}
	var ops []porcupine.Operation
	for _, c := range h.calls {
		if c.ret == 0 {
			rc.Failf("keylist-call-stalled", "a key-list call never returned")
			return
		}
		ops = append(ops, porcupine.Operation{ClientId: c.task, Input: c.in, Call: int64(c.inv), Output: c.out, Return: int64(c.ret)})
	}
	// State: "v<ver>|id:ip,id:ip,..." in list order.
	enc := func(ver int, order []string, ip map[string]string) string {
		var b []string
		for _, id := range order {
			b = append(b, id+"="+ip[id])
		}
		return "v" + strconv.Itoa(ver) + "|" + strings.Join(b, ",")
	}
	dec := func(s string) (int, []string, map[string]string) {
		i := strings.Index(s, "|")
		ver, _ := strconv.Atoi(s[1:i])
		var order []string
		ip := map[string]string{}
		if s[i+1:] != "" {
			for _, kv := range strings.Split(s[i+1:], ",") {
				j := strings.Index(kv, "=")
				order = append(order, kv[:j])
				ip[kv[:j]] = kv[j+1:]
			}
		}
		return ver, order, ip
	}
	model := porcupine.Model{
		Init: func() interface{} { return enc(0, h.vers[0], map[string]string{}) },
		Step: func(state, input, output interface{}) (bool, interface{}) {
			ver, order, ip := dec(state.(string))
			in := input.(klIn)
			switch in.kind {
			case "update":
				return true, enc(in.ver, h.vers[in.ver], map[string]string{})
			case "mark":
				if in.ver != ver {
					return true, state // element of a replaced list: no effect on the current one
				}
				var no []string
				no = append(no, in.id)
				for _, id := range order {
					if id != in.id {
						no = append(no, id)
					}
				}
				ip[in.id] = in.ip
				return true, enc(ver, no, ip)
			default:
				var first, rest []string
				for _, id := range order {
					if ip[id] == in.ip {
						first = append(first, id)
					} else {
						rest = append(rest, id)
					}
				}
				want := strings.Join(append(first, rest...), ",")
				return want == output.(string), state
			}
		},
		Equal: func(a, b interface{}) bool { return a.(string) == b.(string) },
	}
	switch porcupine.CheckOperationsTimeout(model, ops, 5*time.Second) {
	case porcupine.Illegal:
		var b []string
		for _, c := range h.calls {
			b = append(b, fmt.Sprintf("[%d,%d] t%d %s%v -> %q", c.inv, c.ret, c.task, c.in.kind, c.in, c.out))
		}
		rc.Failf("keylist-not-linearizable", "a concurrent history of %d Snapshot/MarkUsed/Update calls on the key list is not equal to any sequential order of the same calls:\n  %s", len(h.calls), strings.Join(b, "\n  "))
	case porcupine.Unknown:
		rc.Inconclusive = append(rc.Inconclusive, "porcupine-timeout")
	default:
		rc.Nontrivial = true
	}
}

// c19main: the shared components as the server itself assembles them. A
// configuration in which services (and legacy ports) have keys in common is
// loaded through the real main path; clients authenticate on all of its TCP and
// UDP listeners at once, with a reload in between in a third of the runs. Only
// the race detector judges (the functional oracles of this run shape are C09's
// and C10's).
func init() {
	Register(&Scenario{Name: "c19main", Prop: "C19", MaxSteps: 400000, Run: runC19Main})
}

func runC19Main(rc *RunCtx) {
	quiet(rc)
	G := rc.G
	U := genKeys(G, 2+G.Draw(2), "")
	mk := func() *mCfg {
		c := &mCfg{}
		nS := 2 + G.Draw(2)
		port := 9000
		for s := 0; s < nS; s++ {
			var sv mSvc
			for l, nL := 0, 1+G.Draw(2); l < nL; l++ {
				sv.Listeners = append(sv.Listeners, mLn{[]string{"tcp", "udp"}[G.Draw(2)], fmt.Sprintf("127.0.0.1:%d", port)})
				port++
			}
			// every service has the first key; the others are drawn
			sv.Keys = append(sv.Keys, U[0])
			for _, k := range U[1:] {
				if G.Draw(2) == 0 {
					sv.Keys = append(sv.Keys, k)
				}
			}
			c.Services = append(c.Services, sv)
		}
		if G.Draw(2) == 0 {
			for _, p := range []int{9100, 9101}[:1+G.Draw(2)] {
				c.Legacy = append(c.Legacy, mLegacy{p, U[0]})
				if G.Draw(2) == 0 {
					c.Legacy = append(c.Legacy, mLegacy{p, U[len(U)-1]})
				}
			}
		}
		return c
	}
	cfg := mk()
	ms, err := newMainSim(rc, []int{0, 100}[G.Draw(2)], cfg)
	if err != nil {
		return
	}
	owners := cfg.owners()
	nT := 2 + G.Draw(5)
	done := make([]flag, nT)
	for t := 0; t < nT; t++ {
		t := t
		type shot struct {
			o mOwner
			k *Key
		}
		var shots []shot
		for i, n := 0, 1+G.Draw(3); i < n; i++ {
			o := owners[G.Draw(len(owners))]
			if len(o.keys) == 0 {
				continue
			}
			shots = append(shots, shot{o, o.keys[G.Draw(len(o.keys))]})
		}
		j := jitter(G)
		simrt.GoNamed(fmt.Sprintf("c19main-client-%d", t), func() {
			j()
			for _, s := range shots {
				if s.o.ln.Type == "tcp" {
					ms.probeTCP(s.o.ln.Addr, s.k, nil)
				} else {
					ms.probeUDP(s.o.ln.Addr, s.k)
				}
			}
			done[t].Set()
		})
	}
	if G.Draw(3) == 0 {
		// (from this task, which also stops the server: as in the program, where the
		// signal loop of main is the only caller of both)
		next := mk()
		jitter(G)()
		ms.reload(next, false)
		simrt.Probe("reload_during_concurrent_authentication")
	}
	for t := range done {
		done[t].Wait()
	}
	rc.Nontrivial = true
	ms.Srv.StopForVerif()
	simrt.Quiesce()
	rc.Phase = "done"
}
