// Package verifharness holds the scenarios, oracles and the run/shrink/replay
// entry point of the deterministic-simulation checks. It is copied into the
// instrumented scratch copy of the repository and built there as a test binary.
package verifharness

import (
	"fmt"
	"hash/fnv"
	"sort"
	"strings"

	"github.com/Jigsaw-Code/outline-ss-server/verifrt/simrt"
)

// Violation is one oracle failure. Sig must be stable across seeds (oracle name
// plus code sites / classes), Detail is free text.
type Violation struct {
	Sig    string `json:"sig"`
	Detail string `json:"detail"`
}

// RunCtx is handed to a scenario's main task.
type RunCtx struct {
	G, F  *simrt.Tape
	Tier  string
	Viols []Violation
	// Phase is updated by the scenario so that a stuck main task can be reported.
	Phase string
	// Desc describes the generated case (ops, faults) for evidence samples and
	// replay files.
	Desc []string
	// Nontrivial is set when the run reached at least one of the property's probes.
	Nontrivial bool
	// States collects abstract-state fingerprints for the coverage measure.
	States map[string]bool
	// Inconclusive reasons (never violations).
	Inconclusive []string
	Param        map[string]string
	// Muted drops functional violations (C19 borrows other properties' run shapes).
	Muted bool
	// Prom carries the real Prometheus collector of the run to the Post hook.
	Prom any
	// PostData carries whatever the scenario wants to evaluate after the run.
	PostData any
}

// Failf records a violation.
func (rc *RunCtx) Failf(sig string, format string, a ...any) {
	if rc.Muted && !strings.Contains(sig, "linearizable") && !strings.HasPrefix(sig, "concurrent-copies") && !strings.HasPrefix(sig, "spurious-listen-error") {
		return
	}
	for _, v := range rc.Viols {
		if v.Sig == sig {
			return
		}
	}
	rc.Viols = append(rc.Viols, Violation{sig, fmt.Sprintf(format, a...)})
}

func (rc *RunCtx) D(format string, a ...any) {
	if len(rc.Desc) < 400 {
		rc.Desc = append(rc.Desc, fmt.Sprintf(format, a...))
	}
}

func (rc *RunCtx) State(s string) {
	if rc.States == nil {
		rc.States = map[string]bool{}
	}
	rc.States[s] = true
}

func (rc *RunCtx) Probe(name string) {
	rc.Nontrivial = true
	simrt.Probe(name)
}

// Scenario is one run shape for one property.
type Scenario struct {
	Name     string
	Prop     string
	MaxSteps int
	Tick     bool // allow clock-tick injection (drawn per run)
	Run      func(rc *RunCtx)
	// Post runs after the simulation ended (outside the bubble) with the result.
	Post func(rc *RunCtx, res *simrt.Result)
	// PanicIsViolation: panics in repository tasks are this property's concern.
	PanicIsViolation bool
	// LivelockIsViolation: a task of the code under test that spins through
	// scheduling points without ever blocking (the run is cut short) is this
	// property's concern (something is never reclaimed / a call never returns).
	LivelockIsViolation bool
}

var scenarios = map[string]*Scenario{}

func Register(s *Scenario) { scenarios[s.Name] = s }

func ScenarioNames() []string {
	var out []string
	for k := range scenarios {
		out = append(out, k)
	}
	sort.Strings(out)
	return out
}

func hashStr(s string) uint64 {
	h := fnv.New64a()
	h.Write([]byte(s))
	return h.Sum64()
}

// funcOf extracts a short function name from a "fn(file:line) < fn(file:line)" site.
func funcOf(where string) string {
	if i := strings.Index(where, " < "); i >= 0 {
		where = where[:i]
	}
	if i := strings.LastIndex(where, "("); i > 0 {
		where = where[:i]
	}
	return where
}

// siteSig renders the set of blocked sites of tasks as a stable signature part.
func siteSig(ts []simrt.TaskInfo) string {
	var fs []string
	for _, t := range ts {
		fs = append(fs, funcOf(t.Where))
	}
	sort.Strings(fs)
	// dedupe
	out := fs[:0]
	for i, f := range fs {
		if i == 0 || f != fs[i-1] {
			out = append(out, f)
		}
	}
	return strings.Join(out, "|")
}

func describeTasks(ts []simrt.TaskInfo) string {
	var b strings.Builder
	for _, t := range ts {
		fmt.Fprintf(&b, "\n    task %d [%s %s] %s: %s at %s (created %s)", t.ID, t.Kind, t.Name, t.State, t.What, t.Where, t.Created)
	}
	return b.String()
}
