//go:debug asynctimerchan=0

package verifharness

import (
	"bufio"
	"encoding/json"
	"fmt"
	"github.com/prometheus/client_golang/prometheus"
	"os"
	"runtime"
	"sort"
	"strconv"
	"strings"
	"testing"
	"time"

	"github.com/Jigsaw-Code/outline-ss-server/verifrt/simrt"
)

// RunOut is the JSON record of one simulated run.
type RunOut struct {
	I            int               `json:"i"`
	Viols        []Violation       `json:"viols,omitempty"`
	Steps        int               `json:"steps"`
	SimNS        int64             `json:"sim_ns"`
	Hash         string            `json:"hash"`
	FP           string            `json:"fp"`
	Faults       map[string]int    `json:"faults,omitempty"`
	Probes       map[string]int    `json:"probes,omitempty"`
	Nontrivial   bool              `json:"nontrivial"`
	Aborted      string            `json:"aborted,omitempty"`
	Policy       int               `json:"policy"`
	States       []string          `json:"states,omitempty"`
	Inconclusive []string          `json:"inconclusive,omitempty"`
	Desc         []string          `json:"desc,omitempty"`
	RepoPanics   []string          `json:"repo_panics,omitempty"`
	HarnessErr   string            `json:"harness_err,omitempty"`
	Tasks        int               `json:"tasks"`
	TapeLens     [3]int            `json:"tape_lens"`
	Trace        []string          `json:"trace,omitempty"`
	Param        map[string]string `json:"param,omitempty"`
}

type tapes struct {
	Gen   []uint32 `json:"gen"`
	Sched []uint32 `json:"sched"`
	Fault []uint32 `json:"fault"`
}

// ReplayFile is what a violation is reported as.
type ReplayFile struct {
	Property string   `json:"property"`
	Scenario string   `json:"scenario"`
	Tier     string   `json:"tier"`
	Seed     uint64   `json:"seed"`
	Run      int      `json:"run"`
	Sig      string   `json:"sig"`
	Detail   string   `json:"detail"`
	Tapes    tapes    `json:"tapes"`
	Desc     []string `json:"desc"`
	Trace    []string `json:"trace_tail"`
	Shrink   string   `json:"shrink_stats"`
	Hash     string   `json:"hash"`
}

func envInt(k string, def int) int {
	if v := os.Getenv(k); v != "" {
		n, err := strconv.Atoi(v)
		if err == nil {
			return n
		}
	}
	return def
}

func envU64(k string, def uint64) uint64 {
	if v := os.Getenv(k); v != "" {
		n, err := strconv.ParseUint(v, 10, 64)
		if err == nil {
			return n
		}
	}
	return def
}

// execute runs one simulation with the given tapes.
func execute(t *testing.T, sc *Scenario, tier string, gen, sched, fault *simrt.Tape, trace bool) (*RunOut, *RunCtx) {
	rc := &RunCtx{G: gen, F: fault, Tier: tier, Param: map[string]string{}}
	cfg := simrt.Config{Gen: gen, Sched: sched, Fault: fault, MaxSteps: sc.MaxSteps, Policy: -1, Trace: trace,
		CheckIdentity: os.Getenv("VERIF_CHECK_IDENTITY") != ""}
	if sc.Tick {
		cfg.Tick = fault.Draw(2) == 1
	}
	simrt.ReinitAll()
	// (the process-wide registry of the metrics library is part of a fresh process too)
	freshReg := prometheus.NewRegistry()
	prometheus.DefaultRegisterer, prometheus.DefaultGatherer = freshReg, freshReg
	res := simrt.Run(t, cfg, func() { sc.Run(rc) })
	out := &RunOut{Steps: res.Steps, SimNS: int64(res.SimTime), Hash: fmt.Sprintf("%016x", res.Hash), FP: fmt.Sprintf("%016x", res.SchedFP),
		Faults: res.Faults, Probes: res.Probes, Aborted: res.Aborted, Policy: res.Policy, Tasks: res.NumTasks,
		TapeLens: [3]int{gen.Used(), sched.Used(), fault.Used()}, Trace: res.Trace, Param: rc.Param}
	if res.Aborted != "" {
		rc.Inconclusive = append(rc.Inconclusive, "aborted:"+res.Aborted)
	}
	for _, p := range res.Panics {
		if p.Kind == "repo" || strings.Contains(p.Stack, "outline-ss-server/service") || strings.Contains(p.Stack, "outline-ss-server/prometheus") || strings.Contains(p.Stack, "outline-ss-server/verifmain") {
			top := panicSite(p.Stack)
			out.RepoPanics = append(out.RepoPanics, p.Value+" @ "+top)
			if sc.PanicIsViolation && res.Aborted == "" {
				rc.Failf("panic:"+top, "task %d (%s) panicked: %s\n%s", p.TaskID, p.Name, p.Value, p.Stack)
			}
		} else {
			out.HarnessErr = fmt.Sprintf("harness task %d (%s) panicked: %s\n%s", p.TaskID, p.Name, p.Value, p.Stack)
		}
	}
	if res.Aborted == "" {
		// The main task must have finished; otherwise the scenario is stuck.
		for _, a := range res.Alive {
			if a.ID == 0 {
				rc.Failf("stuck:"+rc.Phase+":"+funcOf(a.Where), "scenario main task blocked in phase %q: %s at %s", rc.Phase, a.What, a.Where)
			}
		}
		if sc.Post != nil {
			sc.Post(rc, res)
		}
	} else {
		// An aborted run proves nothing either way ...
		rc.Viols = nil
		// ... except that a task of the code under test spinning forever is itself
		// a violation of the liveness properties.
		// (a run can also end on its step budget with one task having spun through
		// more than half of it)
		if (res.Aborted == "livelock" || res.Aborted == "steps") && sc.LivelockIsViolation {
			// (the task itself must have passed that many scheduling points since
			// it last blocked: the budget is one counter for the whole run, and the
			// task that happened to exhaust it need not be the one that spins)
			for _, a := range res.Alive {
				if a.Kind == "repo" && (a.Spin > sc.MaxSteps || (res.Aborted == "steps" && a.Spin > sc.MaxSteps/2)) {
					rc.Muted = false
					rc.Failf("livelock:"+funcOf(a.Created), "task %d of the code under test (created in %s) went through %d scheduling points without ever blocking: it spins at %s", a.ID, a.Created, a.Spin, a.Where)
					break
				}
			}
		}
	}
	out.Viols = rc.Viols
	out.Nontrivial = rc.Nontrivial
	out.Inconclusive = rc.Inconclusive
	out.Desc = rc.Desc
	for s := range rc.States {
		out.States = append(out.States, s)
	}
	sort.Strings(out.States)
	return out, rc
}

// panicSite finds the first repository frame in a panic stack.
func panicSite(stack string) string {
	lines := strings.Split(stack, "\n")
	seenPanic := false
	for _, l := range lines {
		if strings.HasPrefix(l, "panic(") {
			seenPanic = true
			continue
		}
		if !seenPanic || strings.HasPrefix(l, "\t") {
			continue
		}
		if strings.Contains(l, "outline-ss-server/") && !strings.Contains(l, "/verifrt/") && !strings.Contains(l, "/verifharness") {
			fn := l
			if i := strings.LastIndex(fn, "("); i > 0 {
				fn = fn[:i]
			}
			if i := strings.LastIndex(fn, "/"); i >= 0 {
				fn = fn[i+1:]
			}
			return fn
		}
	}
	return "?"
}

func genTapes(seed uint64, scenario string, i int) (*simrt.Tape, *simrt.Tape, *simrt.Tape) {
	h := hashStr(scenario)
	return simrt.NewTape("gen", simrt.Mix(seed, h, uint64(i), 1)),
		simrt.NewTape("sched", simrt.Mix(seed, h, uint64(i), 2)),
		simrt.NewTape("fault", simrt.Mix(seed, h, uint64(i), 3))
}

func TestSim(t *testing.T) {
	name := os.Getenv("VERIF_SCENARIO")
	if name == "" {
		t.Skip("VERIF_SCENARIO not set")
	}
	sc := scenarios[name]
	if sc == nil {
		fmt.Fprintf(os.Stderr, "unknown scenario %q; have %v\n", name, ScenarioNames())
		os.Exit(2)
	}
	tier := os.Getenv("VERIF_TIER")
	if tier == "" {
		tier = "quick"
	}
	seed := envU64("VERIF_SEED", 1)
	switch os.Getenv("VERIF_MODE") {
	case "", "search":
		search(t, sc, tier, seed)
	case "shrink":
		shrink(t, sc, tier, seed)
	case "replay":
		replay(t, sc)
	case "prefix":
		prefixReplay(t, sc, tier, seed)
	default:
		fmt.Fprintln(os.Stderr, "bad VERIF_MODE")
		os.Exit(2)
	}
}

func search(t *testing.T, sc *Scenario, tier string, seed uint64) {
	from := envInt("VERIF_FROM", 0)
	count := envInt("VERIF_COUNT", 100)
	stride := envInt("VERIF_STRIDE", 1)
	budget := time.Duration(envInt("VERIF_BUDGET_MS", 0)) * time.Millisecond
	outPath := os.Getenv("VERIF_OUT")
	var w *bufio.Writer
	if outPath != "" {
		f, err := os.Create(outPath)
		if err != nil {
			fmt.Fprintln(os.Stderr, err)
			os.Exit(2)
		}
		defer f.Close()
		w = bufio.NewWriterSize(f, 1<<20)
		defer w.Flush()
	} else {
		w = bufio.NewWriter(os.Stdout)
		defer w.Flush()
	}
	enc := json.NewEncoder(w)
	start := time.Now()
	maxPerSig := envInt("VERIF_MAX_PER_SIG", 5)
	perSig := map[string]int{}
	// Tasks still blocked when a run ends (daemons, or everything in an aborted
	// run) stay parked in their dead bubble and keep that run's world reachable. A
	// change that makes many runs abort can therefore grow a worker without bound:
	// past the cap the worker stops and the driver continues the chunk in a fresh
	// process.
	memCap := uint64(envInt("VERIF_MEM_CAP_MB", 1500)) << 20
	for k := 0; k < count; k++ {
		i := from + k*stride
		if budget > 0 && time.Since(start) > budget {
			break
		}
		if k > 0 && k%8 == 0 && outPath != "" && stride == 1 {
			var ms runtime.MemStats
			runtime.ReadMemStats(&ms)
			if ms.Sys-ms.HeapReleased > memCap {
				os.WriteFile(outPath+".next", []byte(fmt.Sprint(i)), 0o644)
				break
			}
		}
		g, s, f := genTapes(seed, sc.Name, i)
		out, _ := execute(t, sc, tier, g, s, f, false)
		out.I = i
		keepDesc := k < 3 || len(out.Viols) > 0
		if !keepDesc {
			out.Desc = nil
		}
		if out.HarnessErr != "" {
			enc.Encode(out)
			w.Flush()
			fmt.Fprintln(os.Stderr, "HARNESS ERROR in run", i, ":", out.HarnessErr)
			os.Exit(2)
		}
		for j := range out.Viols {
			perSig[out.Viols[j].Sig]++
			if perSig[out.Viols[j].Sig] > maxPerSig {
				out.Viols[j].Detail = ""
				out.Desc = nil
			}
		}
		enc.Encode(out)
	}
}

// prefixReplay re-executes runs from..run in this (fresh) process: the fallback
// for violations that depend on state the code under test keeps across runs
// (package-level variables), which a single-run tape replay cannot reproduce.
func prefixReplay(t *testing.T, sc *Scenario, tier string, seed uint64) {
	from := envInt("VERIF_FROM", 0)
	run := envInt("VERIF_RUN", 0)
	sig := os.Getenv("VERIF_SIG")
	var last *RunOut
	for i := from; i <= run; i++ {
		g, s, f := genTapes(seed, sc.Name, i)
		last, _ = execute(t, sc, tier, g, s, f, false)
	}
	if last != nil {
		if v := hasSig(last, sig); v != nil {
			ob, _ := json.Marshal(v)
			fmt.Printf("PREFIX-DETAIL %s\n", ob)
			fmt.Printf("REPRODUCED sig=%s hash=%s\n", sig, last.Hash)
			return
		}
	}
	fmt.Printf("NOT-REPRODUCED sig=%s\n", sig)
}

func hasSig(out *RunOut, sig string) *Violation {
	for i := range out.Viols {
		if out.Viols[i].Sig == sig {
			return &out.Viols[i]
		}
	}
	return nil
}

func shrink(t *testing.T, sc *Scenario, tier string, seed uint64) {
	i := envInt("VERIF_RUN", 0)
	sig := os.Getenv("VERIF_SIG")
	outPath := os.Getenv("VERIF_REPLAY_OUT")
	maxExec := envInt("VERIF_SHRINK_EXECS", 1500)
	deadline := time.Now().Add(time.Duration(envInt("VERIF_SHRINK_MS", 60000)) * time.Millisecond)
	g, s, f := genTapes(seed, sc.Name, i)
	out, _ := execute(t, sc, tier, g, s, f, false)
	v := hasSig(out, sig)
	if v == nil {
		fmt.Fprintf(os.Stderr, "shrink: run %d does not reproduce signature %q (got %v)\n", i, sig, out.Viols)
		os.Exit(2)
	}
	cur := tapes{g.Recorded(), s.Recorded(), f.Recorded()}
	execs := 0
	shrinkCap := uint64(envInt("VERIF_MEM_CAP_MB", 1500)) << 20
	test := func(tp tapes) bool {
		if execs >= maxExec || time.Now().After(deadline) {
			return false
		}
		if execs%8 == 7 {
			// candidate runs that abort leave their tasks parked: stop shrinking
			// (keeping what was achieved) rather than outgrow the memory cap
			var ms runtime.MemStats
			runtime.ReadMemStats(&ms)
			if ms.Sys-ms.HeapReleased > shrinkCap {
				maxExec = execs
				return false
			}
		}
		execs++
		o, _ := execute(t, sc, tier, simrt.ReplayTape("gen", tp.Gen), simrt.ReplayTape("sched", tp.Sched), simrt.ReplayTape("fault", tp.Fault), false)
		return hasSig(o, sig) != nil
	}
	if !test(cur) {
		fmt.Fprintf(os.Stderr, "shrink: recorded tapes do not replay signature %q: non-deterministic run\n", sig)
		os.Exit(2)
	}
	get := func(tp *tapes, k int) *[]uint32 {
		switch k {
		case 0:
			return &tp.Fault
		case 1:
			return &tp.Gen
		}
		return &tp.Sched
	}
	trim := func(a []uint32) []uint32 {
		n := len(a)
		for n > 0 && a[n-1] == 0 {
			n--
		}
		return a[:n]
	}
	progress := os.Getenv("VERIF_NO_SHRINK") == ""
	for pass := 0; pass < 4 && progress; pass++ {
		progress = false
		for k := 0; k < 3; k++ {
			// 1. empty tape
			cand := cur
			*get(&cand, k) = nil
			if len(*get(&cur, k)) > 0 && test(cand) {
				cur = cand
				progress = true
				continue
			}
			// 2. truncation by halving
			for {
				a := trim(*get(&cur, k))
				*get(&cur, k) = a
				if len(a) == 0 {
					break
				}
				cand = cur
				*get(&cand, k) = append([]uint32(nil), a[:len(a)/2]...)
				if test(cand) {
					cur = cand
					progress = true
					continue
				}
				cand = cur
				*get(&cand, k) = append([]uint32(nil), a[:len(a)*3/4]...)
				if len(a)*3/4 < len(a) && test(cand) {
					cur = cand
					progress = true
					continue
				}
				break
			}
			// 3. zero blocks of non-zero positions
			for bs := len(*get(&cur, k)); bs >= 1; bs /= 2 {
				a := *get(&cur, k)
				for start := 0; start < len(a); start += bs {
					end := start + bs
					if end > len(a) {
						end = len(a)
					}
					nz := false
					for _, x := range a[start:end] {
						if x != 0 {
							nz = true
						}
					}
					if !nz {
						continue
					}
					b := append([]uint32(nil), a...)
					for j := start; j < end; j++ {
						b[j] = 0
					}
					cand = cur
					*get(&cand, k) = b
					if test(cand) {
						cur = cand
						a = b
						progress = true
					}
				}
				if bs == 1 {
					break
				}
			}
			// 4. delete single elements (shifts later draws) and lower values
			a := *get(&cur, k)
			for j := 0; j < len(a) && len(a) <= 400; j++ {
				if a[j] == 0 {
					continue
				}
				for _, nv := range []uint32{a[j] / 2, a[j] - 1} {
					if nv >= a[j] {
						continue
					}
					b := append([]uint32(nil), a...)
					b[j] = nv
					cand = cur
					*get(&cand, k) = b
					if test(cand) {
						cur = cand
						a = b
						progress = true
						break
					}
				}
			}
			*get(&cur, k) = trim(*get(&cur, k))
		}
	}
	// Final traced execution of the minimised tapes.
	fo, frc := execute(t, sc, tier, simrt.ReplayTape("gen", cur.Gen), simrt.ReplayTape("sched", cur.Sched), simrt.ReplayTape("fault", cur.Fault), true)
	fv := hasSig(fo, sig)
	if fv == nil {
		fmt.Fprintln(os.Stderr, "shrink: minimised tapes lost the violation (non-determinism)")
		os.Exit(2)
	}
	tr := fo.Trace
	if len(tr) > 300 {
		tr = tr[len(tr)-300:]
	}
	nz := func(a []uint32) int {
		n := 0
		for _, x := range a {
			if x != 0 {
				n++
			}
		}
		return n
	}
	rf := ReplayFile{Property: sc.Prop, Scenario: sc.Name, Tier: tier, Seed: seed, Run: i, Sig: sig, Detail: fv.Detail, Tapes: cur,
		Desc: frc.Desc, Trace: tr, Hash: fo.Hash,
		Shrink: fmt.Sprintf("execs=%d; tape lengths gen/sched/fault %d/%d/%d -> %d/%d/%d; non-zero choices %d/%d/%d; steps %d -> %d",
			execs, len(g.Recorded()), len(s.Recorded()), len(f.Recorded()), len(cur.Gen), len(cur.Sched), len(cur.Fault), nz(cur.Gen), nz(cur.Sched), nz(cur.Fault), out.Steps, fo.Steps)}
	b, _ := json.MarshalIndent(rf, "", " ")
	if err := os.WriteFile(outPath, b, 0o644); err != nil {
		fmt.Fprintln(os.Stderr, err)
		os.Exit(2)
	}
	fmt.Printf("SHRUNK %s\n", rf.Shrink)
}

func replay(t *testing.T, sc *Scenario) {
	path := os.Getenv("VERIF_REPLAY")
	b, err := os.ReadFile(path)
	if err != nil {
		fmt.Fprintln(os.Stderr, err)
		os.Exit(2)
	}
	var rf ReplayFile
	if err := json.Unmarshal(b, &rf); err != nil {
		fmt.Fprintln(os.Stderr, err)
		os.Exit(2)
	}
	o, _ := execute(t, sc, rf.Tier, simrt.ReplayTape("gen", rf.Tapes.Gen), simrt.ReplayTape("sched", rf.Tapes.Sched), simrt.ReplayTape("fault", rf.Tapes.Fault), os.Getenv("VERIF_TRACE") != "")
	ob, _ := json.Marshal(o)
	fmt.Printf("REPLAY-RESULT %s\n", ob)
	if v := hasSig(o, rf.Sig); v != nil {
		fmt.Printf("REPRODUCED sig=%s hash=%s\n", rf.Sig, o.Hash)
	} else {
		fmt.Printf("NOT-REPRODUCED sig=%s\n", rf.Sig)
	}
}
