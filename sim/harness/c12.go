package verifharness

import (
	"errors"
	"fmt"
	"net"
	"syscall"
	"time"

	"github.com/Jigsaw-Code/outline-ss-server/service"
	"github.com/Jigsaw-Code/outline-ss-server/verifrt/simnet"
	"github.com/Jigsaw-Code/outline-ss-server/verifrt/simrt"
)

// C12 — shared listeners deliver each connection or datagram exactly once.
func init() {
	Register(&Scenario{Name: "c12s", LivelockIsViolation: true, Prop: "C12", MaxSteps: 30000, Run: runC12Stream})
	Register(&Scenario{Name: "c12p", LivelockIsViolation: true, Prop: "C12", MaxSteps: 30000, Run: runC12Packet})
}

const c12Addr = "127.0.0.1:9000"

var c12IP = net.IPv4(127, 0, 0, 1).To4()

// jitter lets the generator position an action in the schedule: a few yields
// and (sometimes) a little virtual time.
func jitter(G *simrt.Tape) func() {
	ny := G.Draw(4)
	var d time.Duration
	if G.Draw(3) == 0 {
		d = time.Duration(1+G.Draw(5)) * time.Millisecond
	}
	return func() {
		for i := 0; i < ny; i++ {
			simrt.Yield()
		}
		if d > 0 {
			simrt.Sleep(d)
		}
	}
}

func runC12Stream(rc *RunCtx) {
	G := rc.G
	w := simnet.NewWorld()
	m := service.NewListenerManager()
	nH := 1 + G.Draw(4)
	nConn := G.Draw(7)
	keepOne := G.Draw(3) != 0 // one handle keeps accepting until the end of phase 1
	type handle struct {
		ln          service.StreamListener
		closeCalled bool
		closeRet    bool
		got         []int
		postClosed  int // accepts invoked after Close returned
		acceptorEnd bool
	}
	hs := make([]*handle, nH)
	delivered := map[int][]int{} // conn id -> handles
	rc.Phase = "acquire"
	if rc.F.Draw(4) == 1 {
		w.AcceptErr = []int{100, 400}[rc.F.Draw(2)]
	}
	if G.Draw(4) == 0 {
		// a failed acquisition first (the address is briefly unavailable): it must leave nothing behind
		w.ListenFail = func(network, addr string) error { return syscall.EADDRINUSE }
		if _, err := m.ListenStream(c12Addr); err == nil {
			rc.Failf("acquire-succeeded-despite-bind-failure", "ListenStream succeeded although the bind failed")
		}
		w.ListenFail = nil
		simrt.Probe("failed_acquire_before_use")
	}
	for i := range hs {
		ln, err := m.ListenStream(c12Addr)
		if err != nil {
			rc.Failf("acquire-failed", "ListenStream #%d on a shared address failed: %v", i, err)
			return
		}
		hs[i] = &handle{ln: ln}
	}
	acceptor := func(i int) {
		h := hs[i]
		for {
			invokedAfterClose := h.closeRet
			c, err := h.ln.AcceptStream()
			if err != nil && !errors.Is(err, net.ErrClosed) && w.AcceptErr > 0 {
				// an injected transient accept error (EMFILE) surfaces on whichever
				// handle took it; the handle stays usable
				rc.Probe("transient_accept_error_delivered")
				continue
			}
			if err != nil {
				if !errors.Is(err, net.ErrClosed) {
					rc.Failf("accept-error:"+fmt.Sprintf("%T", err), "handle %d: AcceptStream returned unexpected error %v", i, err)
				}
				if !h.closeCalled {
					rc.Failf("accept-closed-error-on-open-handle", "handle %d: AcceptStream failed with %v although the handle was never closed", i, err)
				}
				if h.postClosed >= 2 {
					break
				}
				h.postClosed++
				continue
			}
			if invokedAfterClose {
				rc.Probe("accept_after_close_returned_conn")
				rc.Failf("accept-after-close-delivered", "handle %d: AcceptStream invoked after Close had returned delivered a connection instead of failing with net.ErrClosed", i)
			}
			id := connIDOf(c)
			h.got = append(h.got, id)
			delivered[id] = append(delivered[id], i)
			c.Close()
		}
		h.acceptorEnd = true
	}
	closer := func(i int, j func()) {
		j()
		h := hs[i]
		h.closeCalled = true
		if err := h.ln.Close(); err != nil {
			rc.Probe("close_returned_error") // the statement does not constrain Close's result
		}
		h.closeRet = true
	}
	rc.Phase = "concurrent"
	for i := range hs {
		i := i
		if G.Draw(8) != 0 { // most handles have an acceptor
			simrt.GoNamed(fmt.Sprintf("acceptor-%d", i), func() { acceptor(i) })
		} else {
			hs[i].acceptorEnd = true
			rc.D("handle %d has no acceptor", i)
		}
	}
	keeper := -1
	if keepOne {
		keeper = G.Draw(nH)
	}
	for i := range hs {
		i := i
		if i == keeper {
			continue
		}
		j := jitter(G)
		simrt.GoNamed(fmt.Sprintf("closer-%d", i), func() { closer(i, j) })
	}
	// Re-acquisition racing with the closes (possibly with the full release).
	stamp, lateAt := 0, 0
	connAt := map[int]int{}
	if G.Draw(3) == 0 {
		j := jitter(G)
		simrt.GoNamed("late-acquirer", func() {
			j()
			ln, err := m.ListenStream(c12Addr)
			if err != nil {
				rc.Failf("reacquire-failed", "ListenStream(%s) racing with closes of the other handles failed: %v", c12Addr, err)
				return
			}
			stamp++
			lateAt = stamp
			hs = append(hs, &handle{ln: ln})
			simrt.RacePublish() // the handle is handed to the main task below
			rc.Probe("reacquire_during_closes")
			acceptor(len(hs) - 1)
		})
	}
	type cl struct {
		conn    *simnet.TCPConn
		err     error
		outcome string
	}
	cls := make([]*cl, nConn)
	for k := range cls {
		k := k
		j := jitter(G)
		cls[k] = &cl{}
		simrt.GoNamed(fmt.Sprintf("connector-%d", k), func() {
			j()
			stamp++
			connAt[k] = stamp
			c, err := w.Connect(&net.TCPAddr{IP: net.IPv4(192, 0, 2, byte(10+k)).To4(), Port: 5000 + k}, c12IP, 9000)
			cls[k].conn, cls[k].err = c, err
			if err != nil {
				cls[k].outcome = "refused"
				return
			}
			// Wait for the server's verdict: EOF/RST means it was closed by someone.
			buf := make([]byte, 8)
			_, rerr := c.Read(buf)
			cls[k].outcome = fmt.Sprint(rerr)
			c.Close()
		})
	}
	rc.D("handles=%d conns=%d keeper=%d", nH, nConn, keeper)
	simrt.Quiesce()

	// ---- oracle at the end of the concurrent phase ----
	rc.Phase = "check-1"
	connected := 0
	for k, c := range cls {
		if c.conn == nil {
			continue
		}
		connected++
		id := c.conn.Rec.ID
		if n := len(delivered[id]); n > 1 {
			rc.Failf("duplicate-delivery", "connection %d (connector %d) was returned by %d AcceptStream calls: handles %v", id, k, n, delivered[id])
		}
	}
	keeperAccepting := keeper >= 0 && !hs[keeper].acceptorEnd
	lateOnly := false
	if !keeperAccepting && len(hs) > nH && !hs[len(hs)-1].acceptorEnd {
		keeperAccepting = true // the late handle accepts to the end
		keeper = len(hs) - 1
		lateOnly = true
	}
	open := 0
	for _, h := range hs {
		if !h.closeRet {
			open++
		}
	}
	rc.State(fmt.Sprintf("open=%d keeperAccepting=%v connected=%d", open, keeperAccepting, connected))
	if keeperAccepting {
		rc.Nontrivial = true
		for k, c := range cls {
			if c.conn == nil {
				continue
			}
			id := c.conn.Rec.ID
			if lateOnly && connAt[k] < lateAt {
				continue // arrived while possibly no handle was open (before the re-acquisition)
			}
			if len(delivered[id]) == 0 {
				rc.Failf("lost-connection", "connection %d (connector %d) completed but no handle received it although handle %d kept accepting and the system is idle; connector sees %q",
					id, k, keeper, c.outcome)
			}
		}
	}
	for i, h := range hs {
		if h.closeRet && !h.acceptorEnd {
			rc.Failf("accept-not-unblocked", "handle %d: Close returned but the pending AcceptStream never returned", i)
		}
	}
	// ---- phase 2: close everything that is still open ----
	rc.Phase = "final-close"
	simrt.RaceObserve()
	for i, h := range hs {
		if !h.closeCalled {
			closer(i, func() {})
		}
	}
	simrt.Quiesce()
	rc.Phase = "check-2"
	for i, h := range hs {
		if !h.acceptorEnd {
			rc.Failf("accept-not-unblocked", "handle %d: Close returned but the pending AcceptStream never returned", i)
		}
	}
	if l := w.TCPBound(c12IP, 9000); l != nil {
		rc.Failf("socket-not-released", "all handles closed but %s is still bound", c12Addr)
	}
	undelivered := 0
	for k, c := range cls {
		if c.conn == nil {
			continue
		}
		id := c.conn.Rec.ID
		if len(delivered[id]) == 0 {
			undelivered++
			rc.Probe("conn_undelivered_at_last_close")
			if c.outcome == "" {
				rc.Failf("undelivered-connection-left-hanging", "connection %d (connector %d) was accepted from the backlog but handed to nobody, and after the last handle closed it was not closed: the client still hangs in Read (server end closed=%v)",
					id, k, c.conn.Peer().IsClosed())
			}
		}
	}
	rc.State(fmt.Sprintf("final undelivered=%d", undelivered))
	for _, a := range simrt.Snapshot() {
		if a.Kind == "repo" {
			rc.Failf("leak:task:"+funcOf(a.Where), "after the last handle was closed a listener goroutine is still alive: %s", describeTasks([]simrt.TaskInfo{a}))
		}
	}
	// Re-acquisition after full release.
	rc.Phase = "reacquire"
	ln, err := m.ListenStream(c12Addr)
	if err != nil {
		rc.Failf("reacquire-failed", "after full release ListenStream(%s) failed: %v", c12Addr, err)
	} else {
		done := false
		simrt.GoNamed("reacquire-connector", func() {
			c, err := w.Connect(nil, c12IP, 9000)
			if err == nil {
				b := make([]byte, 1)
				c.Read(b)
				c.Close()
			}
		})
		c, err := ln.AcceptStream()
		for n := 0; err != nil && !errors.Is(err, net.ErrClosed) && w.AcceptErr > 0 && n < 50; n++ {
			c, err = ln.AcceptStream() // injected transient accept error: accept again
		}
		if err != nil {
			rc.Failf("reacquire-accept-failed", "after full release and re-acquisition AcceptStream failed: %v", err)
		} else {
			c.Close()
			done = true
		}
		ln.Close()
		_ = done
	}
	rc.Phase = "done"
}

func runC12Packet(rc *RunCtx) {
	G := rc.G
	w := simnet.NewWorld()
	m := service.NewListenerManager()
	nH := 1 + G.Draw(4)
	nDg := G.Draw(8)
	keepOne := G.Draw(3) != 0
	type handle struct {
		pc          net.PacketConn
		closeCalled bool
		closeRet    bool
		postClosed  int
		readerEnd   bool
	}
	hs := make([]*handle, nH)
	delivered := map[string][]int{}
	rc.Phase = "acquire"
	if G.Draw(4) == 0 {
		w.ListenFail = func(network, addr string) error { return syscall.EADDRINUSE }
		if _, err := m.ListenPacket(c12Addr); err == nil {
			rc.Failf("acquire-succeeded-despite-bind-failure", "ListenPacket succeeded although the bind failed")
		}
		w.ListenFail = nil
		simrt.Probe("failed_acquire_before_use")
	}
	for i := range hs {
		pc, err := m.ListenPacket(c12Addr)
		if err != nil {
			rc.Failf("acquire-failed", "ListenPacket #%d on a shared address failed: %v", i, err)
			return
		}
		hs[i] = &handle{pc: pc}
	}
	reader := func(i int) {
		h := hs[i]
		buf := make([]byte, 2048)
		for {
			invokedAfterClose := h.closeRet
			n, _, err := h.pc.ReadFrom(buf)
			if err != nil {
				if !errors.Is(err, net.ErrClosed) {
					rc.Failf("read-error", "handle %d: ReadFrom returned unexpected error %v", i, err)
				}
				if !h.closeCalled {
					rc.Failf("read-closed-error-on-open-handle", "handle %d: ReadFrom failed with %v although the handle was never closed", i, err)
				}
				if h.postClosed >= 2 {
					break
				}
				h.postClosed++
				continue
			}
			if invokedAfterClose {
				rc.Probe("read_after_close_returned_datagram")
				rc.Failf("read-after-close-delivered", "handle %d: ReadFrom invoked after Close had returned delivered a datagram (%q) instead of failing with net.ErrClosed", i, buf[:n])
			}
			id := string(buf[:n])
			delivered[id] = append(delivered[id], i)
		}
		h.readerEnd = true
	}
	closer := func(i int, j func()) {
		j()
		h := hs[i]
		h.closeCalled = true
		if err := h.pc.Close(); err != nil {
			rc.Probe("close_returned_error")
		}
		h.closeRet = true
	}
	rc.Phase = "concurrent"
	for i := range hs {
		i := i
		if G.Draw(8) != 0 {
			simrt.GoNamed(fmt.Sprintf("reader-%d", i), func() { reader(i) })
		} else {
			hs[i].readerEnd = true
		}
	}
	keeper := -1
	if keepOne {
		keeper = G.Draw(nH)
	}
	for i := range hs {
		i := i
		if i == keeper {
			continue
		}
		j := jitter(G)
		simrt.GoNamed(fmt.Sprintf("closer-%d", i), func() { closer(i, j) })
	}
	stamp, lateAt := 0, 0
	sentAt := map[int]int{}
	if G.Draw(3) == 0 {
		j := jitter(G)
		simrt.GoNamed("late-acquirer", func() {
			j()
			pc, err := m.ListenPacket(c12Addr)
			if err != nil {
				rc.Failf("reacquire-failed", "ListenPacket(%s) racing with closes of the other handles failed: %v", c12Addr, err)
				return
			}
			stamp++
			lateAt = stamp
			hs = append(hs, &handle{pc: pc})
			simrt.RacePublish()
			rc.Probe("reacquire_during_closes")
			reader(len(hs) - 1)
		})
	}
	sent := make([]*simnet.DgramRec, nDg)
	client, _ := w.BindUDP(&net.UDPAddr{IP: net.IPv4(192, 0, 2, 9).To4(), Port: 7000})
	for k := 0; k < nDg; k++ {
		k := k
		j := jitter(G)
		simrt.GoNamed(fmt.Sprintf("sender-%d", k), func() {
			j()
			before := len(w.Dgrams)
			stamp++
			sentAt[k] = stamp
			client.WriteToUDP([]byte(fmt.Sprintf("dg-%02d", k)), &net.UDPAddr{IP: c12IP, Port: 9000})
			for _, r := range w.Dgrams[before:] {
				if string(r.Payload) == fmt.Sprintf("dg-%02d", k) {
					sent[k] = r
				}
			}
		})
	}
	rc.D("handles=%d datagrams=%d keeper=%d", nH, nDg, keeper)
	simrt.Quiesce()
	rc.Phase = "check-1"
	arrived := 0
	for k, r := range sent {
		id := fmt.Sprintf("dg-%02d", k)
		if r == nil || r.Delivered == 0 {
			if len(delivered[id]) > 0 {
				rc.Failf("phantom-datagram", "datagram %s was never queued at the socket but a handle returned it", id)
			}
			continue
		}
		arrived++
		if n := len(delivered[id]); n > 1 {
			rc.Failf("duplicate-delivery", "datagram %s was returned by %d ReadFrom calls: handles %v", id, n, delivered[id])
		}
	}
	keeperReading := keeper >= 0 && !hs[keeper].readerEnd
	lateOnly := false
	if !keeperReading && len(hs) > nH && !hs[len(hs)-1].readerEnd {
		keeperReading = true
		keeper = len(hs) - 1
		lateOnly = true
	}
	open := 0
	for _, h := range hs {
		if !h.closeRet {
			open++
		}
	}
	rc.State(fmt.Sprintf("open=%d keeperReading=%v arrived=%d", open, keeperReading, arrived))
	if keeperReading {
		rc.Nontrivial = true
		for k, r := range sent {
			id := fmt.Sprintf("dg-%02d", k)
			if lateOnly && sentAt[k] < lateAt {
				continue // sent while possibly no handle was open
			}
			if r != nil && r.Delivered > 0 && len(delivered[id]) == 0 {
				rc.Failf("lost-datagram", "datagram %s reached the shared socket but no handle received it although handle %d kept reading and the system is idle", id, keeper)
			}
		}
	}
	for i, h := range hs {
		if h.closeRet && !h.readerEnd {
			rc.Failf("read-not-unblocked", "handle %d: Close returned but the pending ReadFrom never returned", i)
		}
	}
	rc.Phase = "final-close"
	simrt.RaceObserve()
	for i, h := range hs {
		if !h.closeCalled {
			closer(i, func() {})
		}
	}
	simrt.Quiesce()
	rc.Phase = "check-2"
	for i, h := range hs {
		if !h.readerEnd {
			rc.Failf("read-not-unblocked", "handle %d: Close returned but the pending ReadFrom never returned", i)
		}
	}
	if len(w.OpenUDP(true)) != 0 {
		rc.Failf("socket-not-released", "all handles closed but the shared UDP socket on %s is still open", c12Addr)
	}
	for _, a := range simrt.Snapshot() {
		if a.Kind == "repo" {
			rc.Failf("leak:task:"+funcOf(a.Where), "after the last handle was closed a listener goroutine is still alive: %s", describeTasks([]simrt.TaskInfo{a}))
		}
	}
	rc.Phase = "reacquire"
	pc, err := m.ListenPacket(c12Addr)
	if err != nil {
		rc.Failf("reacquire-failed", "after full release ListenPacket(%s) failed: %v", c12Addr, err)
	} else {
		client.WriteToUDP([]byte("again"), &net.UDPAddr{IP: c12IP, Port: 9000})
		buf := make([]byte, 64)
		n, _, err := pc.ReadFrom(buf)
		if err != nil || string(buf[:n]) != "again" {
			rc.Failf("reacquire-read-failed", "after full release and re-acquisition ReadFrom gave %q, %v", buf[:n], err)
		}
		pc.Close()
	}
	client.Close()
	rc.Phase = "done"
}
