package verifharness

import (
	"fmt"
	"io"
	"log/slog"
	"net"
	"strings"
	"syscall"
	"time"

	"github.com/Jigsaw-Code/outline-ss-server/verifmain"
	"github.com/Jigsaw-Code/outline-ss-server/verifrt/simnet"
	"github.com/Jigsaw-Code/outline-ss-server/verifrt/simos"
	"github.com/Jigsaw-Code/outline-ss-server/verifrt/simrt"
)

func init() {
	slog.SetDefault(slog.New(slog.NewTextHandler(io.Discard, &slog.HandlerOptions{Level: slog.LevelError + 4})))
}

// ---------- configuration model ----------

type mLn struct {
	Type string // tcp, udp
	Addr string // as written in the config
}

type mSvc struct {
	Listeners []mLn
	Keys      []*Key
}

type mLegacy struct {
	Port int
	Key  *Key
}

type mCfg struct {
	Services []mSvc
	Legacy   []mLegacy
	// poison, for C10
	Raw string // if non-empty, used verbatim instead of the rendering
	// mergeWild: listeners that spell one wildcard socket differently
	// ("0.0.0.0:P", "[::]:P") are owned jointly by their services
	mergeWild bool
}

func wildPort(addr string) (int, bool) {
	host, port, err := net.SplitHostPort(addr)
	if err != nil {
		return 0, false
	}
	var p int
	fmt.Sscan(port, &p)
	if host == "" {
		return p, true
	}
	ip := net.ParseIP(host)
	return p, ip != nil && ip.IsUnspecified()
}

func (c *mCfg) YAML() string {
	if c.Raw != "" {
		return c.Raw
	}
	var b strings.Builder
	if len(c.Services) > 0 {
		b.WriteString("services:\n")
		for _, s := range c.Services {
			b.WriteString("  - listeners:\n")
			for _, l := range s.Listeners {
				fmt.Fprintf(&b, "      - type: %s\n        address: %q\n", l.Type, l.Addr)
			}
			if len(s.Listeners) == 0 {
				b.WriteString("      []\n")
			}
			b.WriteString("    keys:\n")
			for _, k := range s.Keys {
				fmt.Fprintf(&b, "      - id: %q\n        cipher: %q\n        secret: %q\n", k.ID, k.Cipher, k.Secret)
			}
			if len(s.Keys) == 0 {
				b.WriteString("      []\n")
			}
		}
	}
	if len(c.Legacy) > 0 {
		b.WriteString("keys:\n")
		for _, l := range c.Legacy {
			fmt.Fprintf(&b, "  - id: %q\n    port: %d\n    cipher: %q\n    secret: %q\n", l.Key.ID, l.Port, l.Key.Cipher, l.Key.Secret)
		}
	}
	if b.Len() == 0 {
		return "{}\n"
	}
	return b.String()
}

// owner describes which keys serve a listener.
type mOwner struct {
	ln     mLn
	keys   []*Key // in configuration order
	legacy bool   // a legacy per-port listener (no de-duplication rule in the statement)
}

// has reports whether id is configured on the listener with k's cipher and secret.
func (o *mOwner) has(k *Key, id string) bool {
	for _, x := range o.keys {
		if x.ID == id && sameCrypto(x, k) {
			return true
		}
	}
	return false
}

// owners lists every listener of the configuration with its key list. Legacy
// ports listen on ":port" for both tcp and udp.
func (c *mCfg) owners() []mOwner {
	var out []mOwner
	for _, s := range c.Services {
		for _, l := range s.Listeners {
			out = append(out, mOwner{ln: l, keys: s.Keys})
		}
	}
	seen := map[int]int{}
	for _, l := range c.Legacy {
		i, ok := seen[l.Port]
		if !ok {
			addr := fmt.Sprintf(":%d", l.Port)
			out = append(out, mOwner{ln: mLn{"tcp", addr}, legacy: true}, mOwner{ln: mLn{"udp", addr}, legacy: true})
			i = len(out) - 2
			seen[l.Port] = i
		}
		out[i].keys = append(out[i].keys, l.Key)
		out[i+1].keys = append(out[i+1].keys, l.Key)
	}
	if c.mergeWild {
		type gk struct {
			typ  string
			port int
		}
		union := map[gk][]*Key{}
		n := map[gk]int{}
		for _, o := range out {
			if p, w := wildPort(o.ln.Addr); w {
				union[gk{o.ln.Type, p}] = append(union[gk{o.ln.Type, p}], o.keys...)
				n[gk{o.ln.Type, p}]++
			}
		}
		for i := range out {
			if p, w := wildPort(out[i].ln.Addr); w && n[gk{out[i].ln.Type, p}] > 1 {
				out[i].keys = union[gk{out[i].ln.Type, p}]
				out[i].legacy = true // any id configured with that cipher and secret
			}
		}
	}
	return out
}

// expect returns the id a stream under k must be attributed to on the
// listener, or "" if it must not authenticate there.
func (o *mOwner) expect(k *Key) string {
	for _, x := range o.keys {
		if sameCrypto(x, k) {
			return x.ID
		}
	}
	return ""
}

func lnKey(l mLn) string { return l.Type + "/" + l.Addr }

// dialIP picks an address a client can use to reach a listener address.
func dialIP(addr string) (net.IP, int) {
	host, port, _ := net.SplitHostPort(addr)
	var p int
	fmt.Sscan(port, &p)
	ip := net.ParseIP(host)
	switch {
	case host == "" || ip == nil:
		return net.IPv4(127, 0, 0, 1).To4(), p
	case ip.IsUnspecified() && ip.To4() != nil:
		return net.IPv4(127, 0, 0, 1).To4(), p
	case ip.IsUnspecified():
		return net.ParseIP("::1"), p
	}
	if v4 := ip.To4(); v4 != nil {
		return v4, p
	}
	return ip, p
}

// ---------- the real server in the simulated world ----------

type mainSim struct {
	rc     *RunCtx
	W      *simnet.World
	OS     *simos.OS
	M      *RecMetrics
	Srv    *verifmain.OutlineServer
	File   string
	nProbe int
}

func newMainSim(rc *RunCtx, replayHistory int, first *mCfg) (*mainSim, error) {
	ms := &mainSim{rc: rc, W: simnet.NewWorld(), OS: simos.Cur(), M: &RecMetrics{}, File: "/etc/outline/config.yml"}
	ms.OS.Files[ms.File] = []byte(first.YAML())
	srv, err := verifmain.RunOutlineServer(ms.File, 5*time.Minute, verifmain.NewServerMetricsForVerif(), ms.M, replayHistory)
	ms.Srv = srv
	return ms, err
}

func (ms *mainSim) write(c *mCfg) { ms.OS.Files[ms.File] = []byte(c.YAML()) }

// reload installs the file content and reloads, directly or by SIGHUP.
func (ms *mainSim) reload(c *mCfg, viaSignal bool) error {
	ms.write(c)
	if viaSignal {
		simos.Kill(syscall.SIGHUP)
		return nil
	}
	return ms.Srv.LoadConfigForVerif(ms.File)
}

var unreachableTarget = "93.184.216.99:81" // public, nobody listens: dial fails fast after authentication

type probeResult struct {
	refused bool
	authID  string // "" = not authenticated
	status  string
	conn    *simnet.TCPConn
	wire    []byte
}

// probeTCP presents one handshake under key k to the TCP listener at addr.
func (ms *mainSim) probeTCP(addr string, k *Key, wire []byte) *probeResult {
	if k.EK == nil && wire == nil {
		return &probeResult{} // a key with an unsupported cipher cannot produce a stream
	}
	ms.nProbe++
	ip, port := dialIP(addr)
	cip := net.IPv4(198, 18, 20, byte(1+ms.nProbe%200)).To4()
	if ip.To4() == nil {
		cip = net.ParseIP(fmt.Sprintf("2001:db8:20::%x", 1+ms.nProbe%200))
	}
	cc, err := ms.W.Connect(&net.TCPAddr{IP: cip, Port: 30000 + ms.nProbe}, ip, port)
	res := &probeResult{}
	if err != nil {
		res.refused = true
		return res
	}
	res.conn = cc
	if wire == nil {
		enc := newEncoder(k)
		wire = enc.Chunk(socksAddr(unreachableTarget))
	}
	res.wire = wire
	cc.Write(wire)
	cc.CloseWrite()
	readAll(cc)
	cc.Close()
	// let the handler finish its reports
	for i := 0; i < 50; i++ {
		recs := ms.M.tcpFor(cc.Rec.ID)
		if len(recs) > 0 && recs[0].first("closed") != nil {
			break
		}
		simrt.Sleep(time.Millisecond)
	}
	for _, r := range ms.M.tcpFor(cc.Rec.ID) {
		if a := r.first("auth"); a != nil {
			res.authID = a.Key
		}
		if c := r.first("closed"); c != nil {
			res.status = c.Status
		}
	}
	return res
}

// slowProbe connects to addr, sends wire after d, leaves its side open and
// reports how long after connecting the server ended the connection.
func (ms *mainSim) slowProbe(addr string, wire []byte, d time.Duration) (time.Duration, *simnet.TCPConn) {
	ms.nProbe++
	ip, port := dialIP(addr)
	cip := net.IPv4(198, 18, 22, byte(1+ms.nProbe%200)).To4()
	if ip.To4() == nil {
		cip = net.ParseIP(fmt.Sprintf("2001:db8:22::%x", 1+ms.nProbe%200))
	}
	cc, err := ms.W.Connect(&net.TCPAddr{IP: cip, Port: 30000 + ms.nProbe}, ip, port)
	if err != nil {
		return -1, nil
	}
	t0 := simrt.Elapsed()
	simrt.Sleep(d)
	cc.Write(wire)
	readAll(cc)
	el := simrt.Elapsed() - t0
	cc.Close()
	return el, cc
}

// probeUDP sends one datagram under key k to the UDP listener at addr and
// reports the key id of the association it created ("" if none).
func (ms *mainSim) probeUDP(addr string, k *Key) (authID string, delivered bool) {
	if k.EK == nil {
		return "", true
	}
	ms.nProbe++
	ip, port := dialIP(addr)
	cip := net.IPv4(198, 18, 21, byte(1+ms.nProbe%200)).To4()
	if ip.To4() == nil {
		cip = net.ParseIP(fmt.Sprintf("2001:db8:21::%x", 1+ms.nProbe%200))
	}
	ca := &net.UDPAddr{IP: cip, Port: 31000 + ms.nProbe}
	sock, err := ms.W.BindUDP(ca)
	if err != nil {
		panic(err)
	}
	defer sock.Close()
	plain := append(socksAddr("93.184.216.99:5300"), []byte("probe")...)
	sock.WriteToUDP(packUDP(k, plain), &net.UDPAddr{IP: ip, Port: port})
	rec := sock.LastSent
	delivered = rec != nil && rec.Delivered > 0
	// the handler processes it in the same virtual instant; yield until idle
	for i := 0; i < 20; i++ {
		simrt.Sleep(time.Millisecond)
		for _, u := range ms.M.UDP {
			if u.Client == ca.String() {
				return u.Key, delivered
			}
		}
	}
	return "", delivered
}

// ---------- configuration generator ----------

var mainAddrs = []string{"127.0.0.1:%d", "[::1]:%d", "0.0.0.0:%d", "[::]:%d", "127.0.0.2:%d"}

// genCfg draws a configuration over the key universe U. basePort separates
// generations; listeners may be shared with prev (retained) when prev != nil.
func genCfg(G *simrt.Tape, U []*Key, prev *mCfg, maxSvc int) *mCfg {
	c := &mCfg{}
	used := map[string]bool{}
	usedPort := map[int]bool{}
	var prevLn []mLn
	if prev != nil {
		for _, o := range prev.owners() {
			if !strings.HasPrefix(o.ln.Addr, ":") {
				prevLn = append(prevLn, o.ln)
			}
		}
	}
	nS := G.Draw(maxSvc + 1)
	for s := 0; s < nS; s++ {
		var sv mSvc
		nL := 1 + G.Draw(3)
		for l := 0; l < nL; l++ {
			var ln mLn
			if len(prevLn) > 0 && G.Draw(2) == 0 {
				ln = prevLn[G.Draw(len(prevLn))]
			} else {
				port := 9000 + G.Draw(12)
				// one address form per port for the whole run: the manager shares listeners
				// by address text, so another form of the same port is a genuine bind conflict
				ln = mLn{[]string{"tcp", "udp"}[G.Draw(2)], fmt.Sprintf(mainAddrs[(port*7+3)%len(mainAddrs)], port)}
			}
			_, pstr, _ := net.SplitHostPort(ln.Addr)
			var pn int
			fmt.Sscan(pstr, &pn)
			// keep sim bind semantics simple: one address form per (type, port)
			if used[ln.Type+pstr] {
				continue
			}
			used[ln.Type+pstr] = true
			usedPort[pn] = true
			sv.Listeners = append(sv.Listeners, ln)
		}
		nK := G.Draw(5)
		if G.Draw(6) == 0 {
			nK = 13 + G.Draw(12) // a long key list: the universe is small, so it repeats keys
		}
		for k := 0; k < nK; k++ {
			cand := U[G.Draw(len(U))]
			clash := false
			for _, x := range sv.Keys {
				if x.ID == cand.ID && !sameCrypto(x, cand) {
					clash = true // one id, two key materials in one service: not a shape the statement covers
				}
			}
			if !clash {
				sv.Keys = append(sv.Keys, cand)
			}
		}
		c.Services = append(c.Services, sv)
	}
	nLeg := G.Draw(4)
	if prev == nil || G.Draw(2) == 0 {
		ports := []int{9100, 9101}
		for i := 0; i < nLeg; i++ {
			p := ports[G.Draw(2)]
			cand := U[G.Draw(len(U))]
			clash := false
			for _, x := range c.Legacy {
				if x.Port == p && x.Key.ID == cand.ID && !sameCrypto(x.Key, cand) {
					clash = true
				}
			}
			if !clash {
				c.Legacy = append(c.Legacy, mLegacy{p, cand})
			}
		}
	}
	return c
}

func describeCfg(c *mCfg) string {
	var b []string
	for _, o := range c.owners() {
		var ks []string
		for _, k := range o.keys {
			ks = append(ks, k.ID)
		}
		b = append(b, fmt.Sprintf("%s{%s}", lnKey(o.ln), strings.Join(ks, ",")))
	}
	return strings.Join(b, " ")
}
