package verifharness

import (
	"errors"
	"fmt"
	"net"
	"sort"
	"strings"
	"syscall"
	"time"

	"github.com/Jigsaw-Code/outline-ss-server/verifrt/simnet"
	"github.com/Jigsaw-Code/outline-ss-server/verifrt/simos"
	"github.com/Jigsaw-Code/outline-ss-server/verifrt/simrt"
)

// C10 — configuration reload is all-or-nothing.
func init() {
	Register(&Scenario{Name: "c10", Prop: "C10", MaxSteps: 1000000, Run: runC10})
}

// boundSet lists what the server (not the harness) has bound right now.
func boundSet(w *simnet.World) []string {
	var out []string
	for _, l := range w.Lsns {
		if !l.Foreign && !l.IsClosed() {
			a := l.Addr().(*net.TCPAddr)
			out = append(out, fmt.Sprintf("tcp/%s", net.JoinHostPort(canonHost(a.IP), fmt.Sprint(a.Port))))
		}
	}
	for _, s := range w.Socks {
		if !s.Foreign && !s.IsClosed() {
			a := s.LocalAddr().(*net.UDPAddr)
			if a.Port >= 40000 {
				continue // outbound association sockets
			}
			out = append(out, fmt.Sprintf("udp/%s", net.JoinHostPort(canonHost(a.IP), fmt.Sprint(a.Port))))
		}
	}
	sort.Strings(out)
	return out
}

func canonHost(ip net.IP) string {
	if len(ip) == 0 || ip.IsUnspecified() {
		if ip.To4() != nil {
			return "0.0.0.0"
		}
		return "::"
	}
	return ip.String()
}

func wantBound(c *mCfg) []string {
	var out []string
	for _, o := range c.owners() {
		host, port, _ := net.SplitHostPort(o.ln.Addr)
		h := "::"
		if host != "" {
			h = canonHost(net.ParseIP(host))
		}
		out = append(out, fmt.Sprintf("%s/%s", o.ln.Type, net.JoinHostPort(h, port)))
	}
	sort.Strings(out)
	return out
}

// serverTasks lists the goroutines the server itself started that are alive
// right now (no function names involved: every instrumented go statement).
func serverTasks() []simrt.TaskInfo {
	var out []simrt.TaskInfo
	for _, t := range simrt.Snapshot() {
		if t.Kind == "repo" {
			out = append(out, t)
		}
	}
	return out
}

func runC10(rc *RunCtx) {
	G := rc.G
	U := withRotations(G, genKeys(G, 2+G.Draw(4), ""))
	var good *mCfg
	for tries := 0; ; tries++ {
		good = genCfg(G, U, nil, 3)
		if len(good.owners()) > 0 || tries > 3 {
			break
		}
	}
	rc.D("initial: %s", describeCfg(good))
	ms, err := newMainSim(rc, 0, good)
	if err != nil {
		rc.Failf("valid-config-rejected", "a valid initial configuration failed to load: %v", err)
		return
	}
	w := ms.W
	nAttempts := 1 + G.Draw(3)
	if G.Draw(3) == 0 {
		nAttempts = 3 + G.Draw(4) // longer histories: fail, succeed on the same address, remove it again
	}
	anyFailed := false
	var failedLn []mLn // listeners whose bind failed in an earlier attempt
	// One run in four follows a script: a bind fails on address X, then X is
	// configured successfully, then removed again.
	script := G.Draw(4) == 0
	if script {
		nAttempts = 3 + G.Draw(2)
	}
	var retryCfg *mCfg
	for at := 1; at <= nAttempts; at++ {
		viaSignal := G.Draw(3) == 0
		listenFailAt := 1 << 30
		next := genCfg(G, U, good, 3)
		forcePoison := -1
		if script {
			switch at {
			case 1:
				forcePoison = 9 + G.Draw(3) // listen-fails or address-in-use
				if len(next.owners()) == len(good.owners()) {
					next.Services = append(next.Services, mSvc{Listeners: []mLn{{[]string{"tcp", "udp"}[G.Draw(2)], fmt.Sprintf("127.0.0.1:%d", 9300+G.Draw(3))}}, Keys: append([]*Key(nil), U[:1]...)})
				}
			default:
				forcePoison = 100 // valid
			}
		}
		if len(failedLn) > 0 && (G.Draw(2) == 0 || (script && at == 2)) {
			// come back to an address whose bind failed earlier
			ln := failedLn[G.Draw(len(failedLn))]
			dup := false
			for _, o := range next.owners() {
				_, p1, _ := net.SplitHostPort(o.ln.Addr)
				_, p2, _ := net.SplitHostPort(ln.Addr)
				if o.ln.Type == ln.Type && p1 == p2 {
					dup = true
				}
			}
			if !dup {
				next.Services = append(next.Services, mSvc{Listeners: []mLn{ln}, Keys: append([]*Key(nil), U[:1+G.Draw(len(U))]...)})
			}
		}
		// The operator's reaction to a reload that failed for a reason outside the
		// file (address busy, file unreadable): remove the obstacle and load the very
		// same file again.
		if retryCfg != nil && G.Draw(2) == 0 {
			next = retryCfg
			forcePoison = 100
			rc.Probe("same_configuration_retried_after_failure")
		}
		retryCfg = nil
		poison := ""
		var cleanup func()
		pd := G.Draw(13)
		if forcePoison >= 0 {
			pd = forcePoison
		}
		switch pd {
		case 0:
			poison = "file-missing"
		case 1:
			poison = "file-unreadable"
		case 2:
			poison = "malformed-yaml"
		case 3:
			poison = "validate-unknown-type"
		case 4:
			poison = "validate-hostname"
		case 5:
			poison = "validate-bad-hostport"
		case 6:
			poison = "validate-duplicate-listener"
		case 7, 8:
			poison = "bad-cipher"
		case 9, 10:
			poison = "listen-fails"
		case 11:
			poison = "address-in-use"
		case 12:
			poison = "form-clash"
		}
		desc := poison
		bad := mkKeyUnchecked("bad-key", "rc4-md5", "whatever")
		switch poison {
		case "validate-unknown-type":
			next.Services = append(next.Services, mSvc{Listeners: []mLn{{"quic", "127.0.0.1:9555"}}})
		case "validate-hostname":
			next.Services = append(next.Services, mSvc{Listeners: []mLn{{"tcp", "proxy.example.com:9555"}}})
		case "validate-bad-hostport":
			next.Services = append(next.Services, mSvc{Listeners: []mLn{{"tcp", "127.0.0.1"}}})
		case "validate-duplicate-listener":
			next.Services = append(next.Services, mSvc{Listeners: []mLn{{"udp", "127.0.0.1:9556"}, {"udp", "127.0.0.1:9556"}}})
		case "bad-cipher":
			if len(next.Services) > 0 && G.Draw(4) != 0 {
				i := G.Draw(len(next.Services))
				next.Services[i].Keys = append(next.Services[i].Keys, bad)
				desc = fmt.Sprintf("bad-cipher in service %d of %d", i, len(next.Services))
			} else {
				next.Legacy = append(next.Legacy, mLegacy{9100, bad})
				desc = "bad-cipher in a legacy key"
			}
		case "form-clash":
			// The new configuration wants, first of all, a port that the running one
			// holds under another form of the address (127.0.0.1:P -> 0.0.0.0:P): the
			// kernel refuses that bind while the old socket is open. Further on it has
			// a second, independent defect (a bad cipher), so it cannot be loaded by
			// any strategy: the previous configuration must go on serving.
			alt := map[string]string{"127.0.0.1": "0.0.0.0", "127.0.0.2": "0.0.0.0", "::1": "[::]", "0.0.0.0": "127.0.0.1", "::": "0.0.0.0"}
			var cand []mLn
			for _, o := range good.owners() {
				host, port, err := net.SplitHostPort(o.ln.Addr)
				if err == nil && alt[host] != "" {
					cand = append(cand, mLn{o.ln.Type, alt[host] + ":" + port})
				}
			}
			if len(cand) == 0 {
				poison, desc = "", ""
				break
			}
			ln := cand[G.Draw(len(cand))]
			first := mSvc{Listeners: []mLn{ln}, Keys: append([]*Key(nil), U[:1+G.Draw(len(U))]...)}
			last := mSvc{Listeners: []mLn{{"tcp", "127.0.0.1:9557"}}, Keys: []*Key{U[0], bad}}
			next.Services = append(append([]mSvc{first}, next.Services...), last)
			desc = fmt.Sprintf("%s clashes with a running listener of another address form, and a later service has a bad cipher", lnKey(ln))
		case "listen-fails":
			// the j-th bind of this reload fails
			j := G.Draw(4)
			listenFailAt = j
			n := 0
			w.ListenFail = func(network, addr string) error {
				n++
				if n-1 == j {
					host, port, _ := net.SplitHostPort(addr)
					if ip := net.ParseIP(host); ip != nil && !ip.IsUnspecified() {
						failedLn = append(failedLn, mLn{network, net.JoinHostPort(host, port)})
					}
					return syscall.EADDRINUSE
				}
				return nil
			}
			cleanup = func() { w.ListenFail = nil }
			desc = fmt.Sprintf("bind #%d of the reload fails with EADDRINUSE", j)
		case "address-in-use":
			// another process holds an address the new configuration wants
			var cand []mLn
			have := map[string]bool{}
			for _, o := range good.owners() {
				have[lnKey(o.ln)] = true
			}
			for _, o := range next.owners() {
				if !have[lnKey(o.ln)] && !strings.HasPrefix(o.ln.Addr, ":") {
					cand = append(cand, o.ln)
				}
			}
			if len(cand) == 0 {
				poison, desc = "", ""
				break
			}
			ln := cand[G.Draw(len(cand))]
			ip, port := dialIP(ln.Addr)
			if ln.Type == "tcp" {
				fl, err := simnet.ListenTCP("tcp", &net.TCPAddr{IP: ip, Port: port})
				if err != nil {
					poison, desc = "", ""
					break
				}
				fl.Foreign = true
				cleanup = func() { fl.Close() }
			} else {
				fs, err := w.BindUDP(&net.UDPAddr{IP: ip, Port: port})
				if err != nil {
					poison, desc = "", ""
					break
				}
				cleanup = func() { fs.Close() }
			}
			failedLn = append(failedLn, ln)
			desc = fmt.Sprintf("another socket holds %s", lnKey(ln))
		}
		oldFile := ms.OS.Files[ms.File]
		ms.write(next)
		switch poison {
		case "file-missing":
			delete(ms.OS.Files, ms.File)
		case "file-unreadable":
			ms.OS.FileErr[ms.File] = syscall.EACCES
		case "malformed-yaml":
			ms.OS.Files[ms.File] = []byte("services:\n  - listeners: [ {type: tcp, address: \n")
		}
		rc.D("attempt %d: %s -> %s", at, desc, describeCfg(next))
		rc.Phase = fmt.Sprintf("reload-%d", at)
		nBinds := 0
		if poison == "listen-fails" {
			// count binds to know whether the failure point was reached
			orig := w.ListenFail
			w.ListenFail = func(network, addr string) error { nBinds++; return orig(network, addr) }
		}
		simrt.Sleep(time.Millisecond) // let earlier probes' handlers finish
		tasksBefore := len(serverTasks())
		var lerr error
		if viaSignal {
			// the operator's path: SIGHUP; the outcome is not reported to anyone, so
			// the expected one is taken from the poison (a bind failure point that the
			// reload never reached does not count)
			simos.Kill(syscall.SIGHUP)
			simrt.Sleep(200 * time.Millisecond)
			if poison != "" && !(poison == "listen-fails" && nBinds <= listenFailAt) {
				lerr = errors.New("(reload by SIGHUP: expected to fail)")
			}
			rc.Probe("reload_by_sighup")
		} else {
			// Late arrivals: on a TCP listener kept by the reload, a client with a key
			// the new configuration removes connects right after the reload returned
			// (while another connection keeps the old generation's accept loop busy):
			// "removed keys stop authenticating for new connections".
			var lateDone, busyDone, reloadReturned flag
			late := false
			if poison == "" {
				nextOwners := next.owners()
			pick:
				for _, o := range good.owners() {
					if o.ln.Type != "tcp" {
						continue
					}
					for _, no := range nextOwners {
						if no.ln.Type != "tcp" || no.ln.Addr != o.ln.Addr {
							continue
						}
						for _, k := range o.keys {
							if no.expect(k) == "" {
								late = true
								addr, removed, busyKey := o.ln.Addr, k, o.keys[G.Draw(len(o.keys))]
								jb := jitter(G)
								simrt.GoNamed("c10-busy-client", func() {
									jb()
									ms.probeTCP(addr, busyKey, nil)
									busyDone.Set()
								})
								ny := G.Draw(6)
								simrt.GoNamed("c10-late-client", func() {
									reloadReturned.Wait()
									for i := 0; i < ny; i++ {
										simrt.Yield()
									}
									res := ms.probeTCP(addr, removed, nil)
									if res.authID != "" {
										rc.Failf("removed-key-authenticated-after-reload", "attempt %d: a connection made to %s after the reload had returned authenticated with key %s (as %q), which the new configuration no longer has on that listener", at, addr, removed, res.authID)
									}
									lateDone.Set()
								})
								rc.Probe("late_arrival_with_removed_key")
								break pick
							}
						}
					}
				}
			}
			lerr = ms.Srv.LoadConfigForVerif(ms.File)
			reloadReturned.Set()
			if late {
				if lerr != nil {
					rc.Muted = true // (the late client's verdict presupposes a successful reload)
				}
				lateDone.Wait()
				busyDone.Wait()
				rc.Muted = false
			}
		}
		if cleanup != nil {
			cleanup()
		}
		delete(ms.OS.FileErr, ms.File)
		if poison == "file-missing" {
			ms.OS.Files[ms.File] = oldFile
		}
		poisoned := poison != ""
		if poison == "listen-fails" && lerr == nil {
			poisoned = false // fewer binds than the failure point: the reload legitimately succeeded
		}
		if poisoned && lerr == nil {
			rc.Failf("poisoned-reload-reported-success:"+poison, "attempt %d (%s): loading succeeded", at, desc)
		}
		if !poisoned && lerr != nil {
			rc.Failf("valid-reload-failed", "attempt %d: a valid configuration failed to load: %v\n%s", at, lerr, next.YAML())
			return
		}
		if lerr == nil {
			good = next
		} else {
			rc.Probe("failed_reload:" + poison)
			switch poison {
			case "listen-fails", "address-in-use", "file-unreadable":
				retryCfg = next
			}
		}
		// let stop/start goroutines settle
		simrt.Sleep(time.Millisecond)
		rc.Phase = fmt.Sprintf("check-%d", at)
		when := fmt.Sprintf("after attempt %d (%s, error=%v)", at, desc, lerr != nil)
		if lerr != nil {
			anyFailed = true
		}
		pfx := ""
		if anyFailed {
			pfx = "after-failed-reload:" // this or an earlier attempt of the run failed
		}
		got, want := boundSet(w), wantBound(good)
		if strings.Join(got, " ") != strings.Join(want, " ") {
			rc.Failf(pfx+"listening-set-differs", "%s: the server listens on %v, the last successfully loaded configuration has %v", when, got, want)
		}
		if lerr != nil {
			// A failed attempt must leave nothing of itself running: the server has
			// exactly the goroutines it had before the attempt.
			// (fewer would mean the previous configuration lost a serving loop, which
			// the listening-set and key probes decide)
			if now := serverTasks(); len(now) > tasksBefore {
				rc.Failf(pfx+"serving-goroutines-differ", "%s: the server had %d goroutines before the failed attempt and has %d after it:%s", when, tasksBefore, len(now), describeTasks(now))
			}
		}
		rep := 1
		if anyFailed {
			rep = 3
		}
		checkRelation(rc, ms, good, U, pfx, when, rep)
	}
	rc.Nontrivial = true
	rc.Phase = "stop"
	ms.Srv.StopForVerif()
	simrt.Quiesce()
	rc.Phase = "done"
}

// c10l — the hand-over instant of a successful reload: connections and
// datagrams that arrive right after the reload returned, on a listener the
// reload keeps, with a key the new configuration removed, while other clients
// keep the stopping generation's accept loop busy. "A later successful reload
// fully replaces it, so removed keys stop authenticating for new connections."
func init() {
	Register(&Scenario{Name: "c10l", Prop: "C10", MaxSteps: 200000, Run: runC10Late})
}

func runC10Late(rc *RunCtx) {
	G := rc.G
	keep := mkKey("keep", cipherNames[G.Draw(4)], "secret-keep")
	gone := mkKey("gone", cipherNames[G.Draw(4)], "secret-gone")
	fresh := mkKey("fresh", cipherNames[G.Draw(4)], "secret-fresh")
	addr := fmt.Sprintf(mainAddrs[G.Draw(2)], 9000)
	lns := []mLn{{"tcp", addr}}
	if G.Draw(2) == 0 {
		lns = append(lns, mLn{"udp", addr})
	}
	cfg0 := &mCfg{Services: []mSvc{{Listeners: lns, Keys: []*Key{keep, gone}}}}
	cfg1 := &mCfg{Services: []mSvc{{Listeners: lns, Keys: []*Key{keep}}}}
	if G.Draw(2) == 0 {
		cfg1.Services[0].Keys = append(cfg1.Services[0].Keys, fresh)
	}
	ms, err := newMainSim(rc, 0, cfg0)
	if err != nil {
		rc.Failf("valid-config-rejected", "initial configuration failed to load: %v", err)
		return
	}
	rc.Phase = "reload"
	var returned flag
	nBusy, nLate := 1+G.Draw(3), 1+G.Draw(3)
	done := make([]flag, nBusy+nLate)
	for i := 0; i < nBusy; i++ {
		i := i
		j := jitter(G)
		k := []*Key{keep, gone}[G.Draw(2)]
		simrt.GoNamed(fmt.Sprintf("c10l-busy-%d", i), func() {
			j()
			ms.probeTCP(addr, k, nil) // before or during the reload: either verdict is fine
			done[i].Set()
		})
	}
	for i := 0; i < nLate; i++ {
		i := i
		ny := G.Draw(8)
		udp := len(lns) == 2 && G.Draw(3) == 0
		simrt.GoNamed(fmt.Sprintf("c10l-late-%d", i), func() {
			returned.Wait()
			for y := 0; y < ny; y++ {
				simrt.Yield()
			}
			if udp {
				if id, _ := ms.probeUDP(addr, gone); id != "" {
					rc.Failf("removed-key-authenticated-after-reload:udp", "a datagram sent to %s after the reload had returned created an association under key %s (as %q), which the new configuration no longer has", addr, gone, id)
				}
			} else if res := ms.probeTCP(addr, gone, nil); res.authID != "" {
				rc.Failf("removed-key-authenticated-after-reload:tcp", "a connection made to %s after the reload had returned authenticated with key %s (as %q), which the new configuration no longer has", addr, gone, res.authID)
			}
			done[nBusy+i].Set()
		})
	}
	jitter(G)()
	if err := ms.reload(cfg1, false); err != nil {
		rc.Failf("valid-reload-failed", "a valid configuration failed to load: %v", err)
		return
	}
	returned.Set()
	for i := range done {
		done[i].Wait()
	}
	rc.Nontrivial = true
	rc.Phase = "after"
	checkRelation(rc, ms, cfg1, []*Key{keep, gone, fresh}, "", "after the reload", 1)
	rc.Phase = "stop"
	ms.Srv.StopForVerif()
	simrt.Quiesce()
	rc.Phase = "done"
}
