package verifharness

import (
	"errors"
	"fmt"
	"net"
	"sort"
	"strings"
	"syscall"
	"time"

	"github.com/Jigsaw-Code/outline-ss-server/verifrt/simnet"
	"github.com/Jigsaw-Code/outline-ss-server/verifrt/simos"
	"github.com/Jigsaw-Code/outline-ss-server/verifrt/simrt"
)

// C10 — configuration reload is all-or-nothing.
func init() {
	Register(&Scenario{Name: "c10", Prop: "C10", MaxSteps: 1000000, Run: runC10})
}

// boundSet lists what the server (not the harness) has bound right now.
func boundSet(w *simnet.World) []string {
	var out []string
	for _, l := range w.Lsns {
		if !l.Foreign && !l.IsClosed() {
			a := l.Addr().(*net.TCPAddr)
			out = append(out, fmt.Sprintf("tcp/%s", net.JoinHostPort(canonHost(a.IP), fmt.Sprint(a.Port))))
		}
	}
	for _, s := range w.Socks {
		if !s.Foreign && !s.IsClosed() {
			a := s.LocalAddr().(*net.UDPAddr)
			if a.Port >= 40000 {
				continue // outbound association sockets
			}
			out = append(out, fmt.Sprintf("udp/%s", net.JoinHostPort(canonHost(a.IP), fmt.Sprint(a.Port))))
		}
	}
	sort.Strings(out)
	return out
}

func canonHost(ip net.IP) string {
	if len(ip) == 0 || ip.IsUnspecified() {
		if ip.To4() != nil {
			return "0.0.0.0"
		}
		return "::"
	}
	return ip.String()
}

func wantBound(c *mCfg) []string {
	var out []string
	for _, o := range c.owners() {
		host, port, _ := net.SplitHostPort(o.ln.Addr)
		h := "::"
		if host != "" {
			h = canonHost(net.ParseIP(host))
		}
		out = append(out, fmt.Sprintf("%s/%s", o.ln.Type, net.JoinHostPort(h, port)))
	}
	sort.Strings(out)
	return out
}

// serverTasks lists the goroutines the server itself started that are alive
// right now (no function names involved: every instrumented go statement).
func serverTasks() []simrt.TaskInfo {
	var out []simrt.TaskInfo
	for _, t := range simrt.Snapshot() {
		if t.Kind == "repo" {
			out = append(out, t)
		}
	}
	return out
}

func runC10(rc *RunCtx) {
	G := rc.G
	U := withRotations(G, genKeys(G, 2+G.Draw(4), ""))
	var good *mCfg
	for tries := 0; ; tries++ {
		good = genCfg(G, U, nil, 3)
		if len(good.owners()) > 0 || tries > 3 {
			break
		}
	}
	rc.D("initial: %s", describeCfg(good))
	ms, err := newMainSim(rc, 0, good)
	if err != nil {
		rc.Failf("valid-config-rejected", "a valid initial configuration failed to load: %v", err)
		return
	}
	w := ms.W
	nAttempts := 1 + G.Draw(3)
	if G.Draw(3) == 0 {
		nAttempts = 3 + G.Draw(4) // longer histories: fail, succeed on the same address, remove it again
	}
	anyFailed := false
	var failedLn []mLn // listeners whose bind failed in an earlier attempt
	// One run in four follows a script: a bind fails on address X, then X is
	// configured successfully, then removed again.
	script := G.Draw(4) == 0
	if script {
		nAttempts = 3 + G.Draw(2)
	}
	for at := 1; at <= nAttempts; at++ {
		viaSignal := G.Draw(3) == 0
		listenFailAt := 1 << 30
		next := genCfg(G, U, good, 3)
		forcePoison := -1
		if script {
			switch at {
			case 1:
				forcePoison = 9 + G.Draw(3) // listen-fails or address-in-use
				if len(next.owners()) == len(good.owners()) {
					next.Services = append(next.Services, mSvc{Listeners: []mLn{{[]string{"tcp", "udp"}[G.Draw(2)], fmt.Sprintf("127.0.0.1:%d", 9300+G.Draw(3))}}, Keys: append([]*Key(nil), U[:1]...)})
				}
			default:
				forcePoison = 100 // valid
			}
		}
		if len(failedLn) > 0 && (G.Draw(2) == 0 || (script && at == 2)) {
			// come back to an address whose bind failed earlier
			ln := failedLn[G.Draw(len(failedLn))]
			dup := false
			for _, o := range next.owners() {
				_, p1, _ := net.SplitHostPort(o.ln.Addr)
				_, p2, _ := net.SplitHostPort(ln.Addr)
				if o.ln.Type == ln.Type && p1 == p2 {
					dup = true
				}
			}
			if !dup {
				next.Services = append(next.Services, mSvc{Listeners: []mLn{ln}, Keys: append([]*Key(nil), U[:1+G.Draw(len(U))]...)})
			}
		}
		poison := ""
		var cleanup func()
		pd := G.Draw(12)
		if forcePoison >= 0 {
			pd = forcePoison
		}
		switch pd {
		case 0:
			poison = "file-missing"
		case 1:
			poison = "file-unreadable"
		case 2:
			poison = "malformed-yaml"
		case 3:
			poison = "validate-unknown-type"
		case 4:
			poison = "validate-hostname"
		case 5:
			poison = "validate-bad-hostport"
		case 6:
			poison = "validate-duplicate-listener"
		case 7, 8:
			poison = "bad-cipher"
		case 9, 10:
			poison = "listen-fails"
		case 11:
			poison = "address-in-use"
		}
		desc := poison
		bad := mkKeyUnchecked("bad-key", "rc4-md5", "whatever")
		switch poison {
		case "validate-unknown-type":
			next.Services = append(next.Services, mSvc{Listeners: []mLn{{"quic", "127.0.0.1:9555"}}})
		case "validate-hostname":
			next.Services = append(next.Services, mSvc{Listeners: []mLn{{"tcp", "proxy.example.com:9555"}}})
		case "validate-bad-hostport":
			next.Services = append(next.Services, mSvc{Listeners: []mLn{{"tcp", "127.0.0.1"}}})
		case "validate-duplicate-listener":
			next.Services = append(next.Services, mSvc{Listeners: []mLn{{"udp", "127.0.0.1:9556"}, {"udp", "127.0.0.1:9556"}}})
		case "bad-cipher":
			if len(next.Services) > 0 && G.Draw(4) != 0 {
				i := G.Draw(len(next.Services))
				next.Services[i].Keys = append(next.Services[i].Keys, bad)
				desc = fmt.Sprintf("bad-cipher in service %d of %d", i, len(next.Services))
			} else {
				next.Legacy = append(next.Legacy, mLegacy{9100, bad})
				desc = "bad-cipher in a legacy key"
			}
		case "listen-fails":
			// the j-th bind of this reload fails
			j := G.Draw(4)
			listenFailAt = j
			n := 0
			w.ListenFail = func(network, addr string) error {
				n++
				if n-1 == j {
					host, port, _ := net.SplitHostPort(addr)
					if ip := net.ParseIP(host); ip != nil && !ip.IsUnspecified() {
						failedLn = append(failedLn, mLn{network, net.JoinHostPort(host, port)})
					}
					return syscall.EADDRINUSE
				}
				return nil
			}
			cleanup = func() { w.ListenFail = nil }
			desc = fmt.Sprintf("bind #%d of the reload fails with EADDRINUSE", j)
		case "address-in-use":
			// another process holds an address the new configuration wants
			var cand []mLn
			have := map[string]bool{}
			for _, o := range good.owners() {
				have[lnKey(o.ln)] = true
			}
			for _, o := range next.owners() {
				if !have[lnKey(o.ln)] && !strings.HasPrefix(o.ln.Addr, ":") {
					cand = append(cand, o.ln)
				}
			}
			if len(cand) == 0 {
				poison, desc = "", ""
				break
			}
			ln := cand[G.Draw(len(cand))]
			ip, port := dialIP(ln.Addr)
			if ln.Type == "tcp" {
				fl, err := simnet.ListenTCP("tcp", &net.TCPAddr{IP: ip, Port: port})
				if err != nil {
					poison, desc = "", ""
					break
				}
				fl.Foreign = true
				cleanup = func() { fl.Close() }
			} else {
				fs, err := w.BindUDP(&net.UDPAddr{IP: ip, Port: port})
				if err != nil {
					poison, desc = "", ""
					break
				}
				cleanup = func() { fs.Close() }
			}
			failedLn = append(failedLn, ln)
			desc = fmt.Sprintf("another socket holds %s", lnKey(ln))
		}
		oldFile := ms.OS.Files[ms.File]
		ms.write(next)
		switch poison {
		case "file-missing":
			delete(ms.OS.Files, ms.File)
		case "file-unreadable":
			ms.OS.FileErr[ms.File] = syscall.EACCES
		case "malformed-yaml":
			ms.OS.Files[ms.File] = []byte("services:\n  - listeners: [ {type: tcp, address: \n")
		}
		rc.D("attempt %d: %s -> %s", at, desc, describeCfg(next))
		rc.Phase = fmt.Sprintf("reload-%d", at)
		nBinds := 0
		if poison == "listen-fails" {
			// count binds to know whether the failure point was reached
			orig := w.ListenFail
			w.ListenFail = func(network, addr string) error { nBinds++; return orig(network, addr) }
		}
		simrt.Sleep(time.Millisecond) // let earlier probes' handlers finish
		tasksBefore := len(serverTasks())
		var lerr error
		if viaSignal {
			// the operator's path: SIGHUP; the outcome is not reported to anyone, so
			// the expected one is taken from the poison (a bind failure point that the
			// reload never reached does not count)
			simos.Kill(syscall.SIGHUP)
			simrt.Sleep(200 * time.Millisecond)
			if poison != "" && !(poison == "listen-fails" && nBinds <= listenFailAt) {
				lerr = errors.New("(reload by SIGHUP: expected to fail)")
			}
			rc.Probe("reload_by_sighup")
		} else {
			lerr = ms.Srv.LoadConfigForVerif(ms.File)
		}
		if cleanup != nil {
			cleanup()
		}
		delete(ms.OS.FileErr, ms.File)
		if poison == "file-missing" {
			ms.OS.Files[ms.File] = oldFile
		}
		poisoned := poison != ""
		if poison == "listen-fails" && lerr == nil {
			poisoned = false // fewer binds than the failure point: the reload legitimately succeeded
		}
		if poisoned && lerr == nil {
			rc.Failf("poisoned-reload-reported-success:"+poison, "attempt %d (%s): loading succeeded", at, desc)
		}
		if !poisoned && lerr != nil {
			rc.Failf("valid-reload-failed", "attempt %d: a valid configuration failed to load: %v\n%s", at, lerr, next.YAML())
			return
		}
		if lerr == nil {
			good = next
		} else {
			rc.Probe("failed_reload:" + poison)
		}
		// let stop/start goroutines settle
		simrt.Sleep(time.Millisecond)
		rc.Phase = fmt.Sprintf("check-%d", at)
		when := fmt.Sprintf("after attempt %d (%s, error=%v)", at, desc, lerr != nil)
		if lerr != nil {
			anyFailed = true
		}
		pfx := ""
		if anyFailed {
			pfx = "after-failed-reload:" // this or an earlier attempt of the run failed
		}
		got, want := boundSet(w), wantBound(good)
		if strings.Join(got, " ") != strings.Join(want, " ") {
			rc.Failf(pfx+"listening-set-differs", "%s: the server listens on %v, the last successfully loaded configuration has %v", when, got, want)
		}
		if lerr != nil {
			// A failed attempt must leave nothing of itself running: the server has
			// exactly the goroutines it had before the attempt.
			// (fewer would mean the previous configuration lost a serving loop, which
			// the listening-set and key probes decide)
			if now := serverTasks(); len(now) > tasksBefore {
				rc.Failf(pfx+"serving-goroutines-differ", "%s: the server had %d goroutines before the failed attempt and has %d after it:%s", when, tasksBefore, len(now), describeTasks(now))
			}
		}
		rep := 1
		if anyFailed {
			rep = 3
		}
		checkRelation(rc, ms, good, U, pfx, when, rep)
	}
	rc.Nontrivial = true
	rc.Phase = "stop"
	ms.Srv.StopForVerif()
	simrt.Quiesce()
	rc.Phase = "done"
}
