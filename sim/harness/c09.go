package verifharness

import (
	"fmt"
	"net"
	"time"

	"github.com/Jigsaw-Code/outline-ss-server/verifrt/simrt"
)

// C09 — a key works exactly on the listeners its configuration binds it to.
func init() {
	Register(&Scenario{Name: "c09", Prop: "C09", MaxSteps: 400000, Run: runC09})
}

// checkRelation probes every (listener, key) pair of cfg against the running
// server and reports deviations from the configuration relation.
func checkRelation(rc *RunCtx, ms *mainSim, cfg *mCfg, U []*Key, sigPrefix, when string, repeat int) {
	for _, o := range cfg.owners() {
		o := o
		for _, k := range U {
			want := o.expect(k)
			for r := 0; r < repeat; r++ {
				var got string
				var wire []byte
				if o.ln.Type == "tcp" {
					res := ms.probeTCP(o.ln.Addr, k, nil)
					wire = res.wire
					if res.refused {
						rc.Failf(sigPrefix+"listener-not-listening:tcp", "%s: configured TCP listener %s refuses connections", when, o.ln.Addr)
						break
					}
					got = res.authID
				} else {
					id, delivered := ms.probeUDP(o.ln.Addr, k)
					if !delivered {
						rc.Failf(sigPrefix+"listener-not-listening:udp", "%s: configured UDP listener %s is not bound", when, o.ln.Addr)
						break
					}
					got = id
				}
				switch {
				case want == "" && got != "":
					rc.Failf(sigPrefix+"foreign-key-authenticated:"+o.ln.Type, "%s: key %s is not configured for listener %s but authenticated there as %q", when, k, lnKey(o.ln), got)
				case want != "" && got == "" && wire != nil && freshRefusalExcused(rc, k, wire):
				case want != "" && got == "":
					rc.Failf(sigPrefix+"configured-key-rejected:"+o.ln.Type, "%s: key %s is configured for listener %s (as %q) but did not authenticate there", when, k, lnKey(o.ln), want)
				case want != got && o.legacy && o.has(k, got):
					// the statement fixes the id only for duplicates within a service
					rc.Probe("legacy_duplicate_other_id")
				case want != got:
					rc.Failf(sigPrefix+"wrong-id:"+o.ln.Type, "%s: key %s on listener %s was attributed to %q, the first configured id with that cipher and secret is %q", when, k, lnKey(o.ln), got, want)
				}
			}
		}
	}
}

func runC09(rc *RunCtx) {
	G := rc.G
	U := withRotations(G, genKeys(G, 2+G.Draw(6), ""))
	if G.Draw(3) == 0 {
		// secrets are arbitrary strings ('$', blanks, quotes, non-ASCII ...)
		for n := 1 + G.Draw(2); n > 0; n-- {
			U = append(U, mkKey(fmt.Sprintf("odd-secret-%d", n), cipherNames[G.Draw(4)], oddSecrets[G.Draw(len(oddSecrets))]))
		}
		simrt.Probe("secret_with_blanks_or_punctuation")
	}
	var cfg *mCfg
	for tries := 0; ; tries++ {
		cfg = genCfg(G, U, nil, 4)
		if len(cfg.owners()) > 0 || tries > 3 {
			break
		}
	}
	// Two owners that spell one wildcard socket differently: the socket cannot be
	// bound twice, so the configuration is refused; a server that loads it anyway
	// must serve, on that socket, every key of every service that owns it.
	respelled := false
	if G.Draw(4) == 0 {
	find:
		for _, sv := range cfg.Services {
			for _, ln := range sv.Listeners {
				host, port, _ := net.SplitHostPort(ln.Addr)
				other := ""
				switch host {
				case "0.0.0.0":
					other = "[::]:" + port
				case "::":
					other = "0.0.0.0:" + port
				}
				if other != "" {
					nsv := mSvc{Listeners: []mLn{{ln.Type, other}}}
					for k := 1 + G.Draw(2); k > 0; k-- {
						nsv.Keys = append(nsv.Keys, U[G.Draw(len(U))])
					}
					cfg.Services = append(cfg.Services, nsv)
					cfg.mergeWild = true
					respelled = true
					break find
				}
			}
		}
	}
	rc.D("config: %s", describeCfg(cfg))
	ms, err := newMainSim(rc, []int{0, 100}[G.Draw(2)], cfg)
	if err != nil && respelled {
		rc.Probe("respelled_wildcard_socket_refused")
		rc.Nontrivial = true
		if ms != nil && ms.Srv != nil {
			ms.Srv.StopForVerif()
		}
		simrt.Quiesce()
		rc.Phase = "done"
		return
	}
	if respelled {
		rc.Probe("respelled_wildcard_socket_loaded")
	}
	if err != nil {
		rc.Failf("valid-config-rejected", "a valid configuration failed to load: %v\n%s", err, cfg.YAML())
		return
	}
	rc.Phase = "probe"
	checkRelation(rc, ms, cfg, U, "", "after initial load", 1)
	// Sibling listeners of one service are served by one handler: datagrams that
	// arrive on two of them at the same time must each be judged by their own
	// content (a key of the service authenticates, a key of no service does not).
	rc.Phase = "siblings"
	for si, sv := range cfg.Services {
		var udp []mLn
		for _, l := range sv.Listeners {
			if l.Type == "udp" {
				udp = append(udp, l)
			}
		}
		if len(udp) < 2 || len(sv.Keys) == 0 {
			continue
		}
		owner := mOwner{ln: udp[0], keys: sv.Keys}
		var foreign []*Key
		for _, k := range U {
			if owner.expect(k) == "" {
				foreign = append(foreign, k)
			}
		}
		for round := 0; round < 3; round++ {
			a, b := udp[G.Draw(len(udp))], udp[G.Draw(len(udp))]
			if a == b {
				continue
			}
			ka := sv.Keys[G.Draw(len(sv.Keys))]
			kb := sv.Keys[G.Draw(len(sv.Keys))]
			if len(foreign) > 0 && G.Draw(3) != 0 {
				kb = foreign[G.Draw(len(foreign))]
			}
			var da, db flag
			var ida, idb string
			ja, jb := jitter(G), jitter(G)
			simrt.GoNamed("c09-sibling-a", func() { ja(); ida, _ = ms.probeUDP(a.Addr, ka); da.Set() })
			simrt.GoNamed("c09-sibling-b", func() { jb(); idb, _ = ms.probeUDP(b.Addr, kb); db.Set() })
			da.Wait()
			db.Wait()
			rc.Probe("concurrent_datagrams_on_sibling_listeners")
			for _, x := range []struct {
				ln  mLn
				k   *Key
				got string
			}{{a, ka, ida}, {b, kb, idb}} {
				want := owner.expect(x.k)
				switch {
				case want == "" && x.got != "":
					rc.Failf("foreign-key-authenticated:udp", "service %d: a datagram under key %s, which the service does not have, sent to %s while a sibling listener received another one, created an association as %q", si, x.k, x.ln.Addr, x.got)
				case want != "" && x.got == "":
					rc.Failf("configured-key-rejected:udp", "service %d: a datagram under key %s sent to %s while a sibling listener received another one did not authenticate", si, x.k, x.ln.Addr)
				case want != x.got:
					rc.Failf("wrong-id:udp", "service %d: a datagram under key %s sent to %s while a sibling listener received another one was attributed to %q (first configured id: %q)", si, x.k, x.ln.Addr, x.got, want)
				}
			}
		}
	}
	// "After a configuration is loaded": also when it replaces another one. In a
	// third of the runs a second configuration is loaded over the first, half of the
	// time in the other file format only (legacy keys <-> services): the relation
	// holds for the new one, and what only the old one had serves nobody any more.
	if !respelled && G.Draw(3) == 0 {
		rc.Phase = "reload"
		next := genCfg(G, U, cfg, 4)
		if G.Draw(2) == 0 {
			if len(cfg.Legacy) > 0 && len(next.Services) > 0 {
				next.Legacy = nil
			} else if len(cfg.Services) > 0 && len(next.Legacy) > 0 {
				next.Services = nil
			}
			rc.Probe("reload_into_the_other_format")
		}
		if err := ms.reload(next, false); err != nil {
			rc.Failf("valid-reload-failed", "a valid configuration failed to load over another one: %v\n%s", err, next.YAML())
		} else {
			simrt.Sleep(time.Millisecond)
			rc.D("second config: %s", describeCfg(next))
			checkRelation(rc, ms, next, U, "after-reload:", "after a second configuration was loaded", 1)
			kept := map[string]bool{}
			for _, o := range next.owners() {
				kept[lnKey(o.ln)] = true
			}
			for _, o := range cfg.owners() {
				if kept[lnKey(o.ln)] {
					continue
				}
				for _, k := range o.keys {
					got := ""
					if o.ln.Type == "tcp" {
						got = ms.probeTCP(o.ln.Addr, k, nil).authID
					} else {
						got, _ = ms.probeUDP(o.ln.Addr, k)
					}
					if got != "" {
						rc.Failf("after-reload:foreign-key-authenticated:"+o.ln.Type, "listener %s belongs to no service or legacy port of the configuration now loaded (the one before had it); key %s still authenticates there as %q", lnKey(o.ln), k, got)
					}
				}
			}
			cfg = next
		}
	}
	rc.Nontrivial = len(cfg.owners()) > 0
	rc.State(fmt.Sprintf("listeners=%d", len(cfg.owners())))
	rc.Phase = "stop"
	ms.Srv.StopForVerif()
	simrt.Quiesce()
	rc.Phase = "done"
}
