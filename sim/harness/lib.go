package verifharness

import (
	"bytes"
	"container/list"
	"context"
	"errors"
	"fmt"
	"io"
	"log/slog"
	"net"
	"time"

	"github.com/Jigsaw-Code/outline-sdk/transport"
	"github.com/Jigsaw-Code/outline-sdk/transport/shadowsocks"
	"github.com/Jigsaw-Code/outline-ss-server/ipinfo"
	"github.com/Jigsaw-Code/outline-ss-server/service"
	"github.com/Jigsaw-Code/outline-ss-server/service/metrics"
	"github.com/Jigsaw-Code/outline-ss-server/verifrt/simnet"
	"github.com/Jigsaw-Code/outline-ss-server/verifrt/simrt"
	"github.com/shadowsocks/go-shadowsocks2/socks"
)

// ---------- keys ----------

var cipherNames = []string{"chacha20-ietf-poly1305", "aes-256-gcm", "aes-192-gcm", "aes-128-gcm"}

// Key is an access key of the universe a run draws from.
type Key struct {
	ID     string
	Cipher string
	Secret string
	EK     *shadowsocks.EncryptionKey
}

func (k *Key) String() string { return fmt.Sprintf("%s(%s,%s)", k.ID, k.Cipher, k.Secret) }

func mkKey(id, cipher, secret string) *Key {
	ek, err := shadowsocks.NewEncryptionKey(cipher, secret)
	if err != nil {
		panic(err)
	}
	k := &Key{ID: id, Cipher: cipher, Secret: secret, EK: ek}
	if r := hsRegistry(); r != nil {
		r.keys = append(r.keys, k)
	}
	return k
}

// ---- handshake registry: the two 2^-32 events the statements of C07/C08 allow ----

type hsRec struct {
	k    *Key
	salt []byte
}

type hsReg struct {
	keys []*Key
	hs   []hsRec
}

func hsRegistry() *hsReg {
	if simrt.S == nil {
		return nil
	}
	r, _ := simrt.S.Values["harness.handshakes"].(*hsReg)
	if r == nil {
		r = &hsReg{}
		simrt.S.Values["harness.handshakes"] = r
	}
	return r
}

// idsLike lists the ids of the run's keys that share k's cipher and secret (the
// server may have matched the stream under any of them).
func (r *hsReg) idsLike(k *Key) []string {
	seen := map[string]bool{k.ID: true}
	ids := []string{k.ID}
	for _, o := range r.keys {
		if o.Cipher == k.Cipher && o.Secret == k.Secret && !seen[o.ID] {
			seen[o.ID] = true
			ids = append(ids, o.ID)
		}
	}
	return ids
}

// freshRefusalExcused reports whether the refusal of a never-seen client stream
// under k (opening with wire) is one of the events the statements allow with
// probability 2^-32 per pair/handshake: a 32-bit checksum collision in the
// replay history with another client handshake of this run, or a random client
// salt that carries the server's own mark. Both are established by asking the
// real implementation about exactly that pair (black box: NewReplayCache/Add,
// MakeCipherEntry/IsServerSalt); no constant of the implementation is mirrored.
// Salts come from the real random generator, so without this a clean tree would
// raise a non-replayable alarm about once in a few dozen thorough campaigns.
func freshRefusalExcused(rc *RunCtx, k *Key, wire []byte) bool {
	S := k.EK.SaltSize()
	if len(wire) < S {
		return false
	}
	salt := wire[:S]
	r := hsRegistry()
	for _, id := range r.idsLike(k) {
		e := service.MakeCipherEntry(id, k.EK, k.Secret)
		if e.SaltGenerator.IsServerSalt(salt) {
			rc.Probe("excused:client_salt_carries_server_mark")
			return true
		}
	}
	for _, o := range r.hs {
		if bytes.Equal(o.salt, salt) {
			continue
		}
		for _, oid := range r.idsLike(o.k) {
			for _, id := range r.idsLike(k) {
				c := service.NewReplayCache(4)
				c.Add(oid, o.salt)
				if !c.Add(id, salt) {
					rc.Probe("excused:replay_checksum_collision")
					return true
				}
			}
		}
	}
	return false
}

// sameCrypto reports whether two keys are the same (cipher, secret).
func sameCrypto(a, b *Key) bool { return a.Cipher == b.Cipher && a.Secret == b.Secret }

// genKeys draws a universe of n keys: mixed ciphers, some duplicate
// (cipher,secret) pairs under different ids, some secrets shared across ciphers.
func genKeys(G *simrt.Tape, n int, prefix string) []*Key {
	var ks []*Key
	for i := 0; i < n; i++ {
		c := cipherNames[G.Draw(4)]
		secret := fmt.Sprintf("%ssecret-%d", prefix, i)
		if i > 0 {
			switch G.Draw(8) {
			case 1: // duplicate cipher+secret of an earlier key
				o := ks[G.Draw(len(ks))]
				c, secret = o.Cipher, o.Secret
			case 2: // same secret, possibly different cipher
				secret = ks[G.Draw(len(ks))].Secret
			}
		}
		ks = append(ks, mkKey(fmt.Sprintf("%skey-%d", prefix, i), c, secret))
	}
	return ks
}

// withRotations appends, for some keys, a variant with the same id and new key
// material (another secret; the same cipher or one with the same salt size): a
// later configuration may carry the id with the new material.
func withRotations(G *simrt.Tape, ks []*Key) []*Key {
	if G.Draw(3) != 0 {
		return ks
	}
	sameSalt := map[string][]string{"chacha20-ietf-poly1305": {"chacha20-ietf-poly1305", "aes-256-gcm"}, "aes-256-gcm": {"aes-256-gcm", "chacha20-ietf-poly1305"},
		"aes-192-gcm": {"aes-192-gcm"}, "aes-128-gcm": {"aes-128-gcm"}}
	n := len(ks)
	for i := 0; i < n; i++ {
		if G.Draw(3) == 0 {
			cs := sameSalt[ks[i].Cipher]
			ks = append(ks, mkKey(ks[i].ID, cs[G.Draw(len(cs))], ks[i].Secret+"-rotated"))
			simrt.Probe("key_material_rotated_under_same_id")
		}
	}
	return ks
}

// uniqueCrypto drops keys whose cipher and secret repeat an earlier key's: replay
// claims are made for keys that are unique in their list (a handshake is
// (key id, salt); under a duplicate the server may match the sibling id).
func uniqueCrypto(keys []*Key) []*Key {
	var out []*Key
	for _, k := range keys {
		if !configured(out, k) {
			out = append(out, k)
		}
	}
	return out
}

// cryptoDup reports whether another key of the list has k's cipher and secret.
func cryptoDup(keys []*Key, k *Key) bool {
	for _, o := range keys {
		if o != k && sameCrypto(o, k) {
			return true
		}
	}
	return false
}

func mkCipherList(keys []*Key) *list.List {
	l := list.New()
	for _, k := range keys {
		e := service.MakeCipherEntry(k.ID, k.EK, k.Secret)
		l.PushBack(&e)
	}
	return l
}

// ---------- recording metrics ----------

type MCall struct {
	Kind   string // auth, closed, probe
	Key    string
	Status string
	Drain  string
	Data   metrics.ProxyMetrics
	N      int64
	At     time.Duration
	Seq    int
	At2    time.Duration // after the wrapped collector returned
}

type TCPRec struct {
	ConnID   int
	Server   *simnet.TCPConn
	OpenedAt time.Duration
	Calls    []MCall
	inner    service.TCPConnMetrics
}

func (r *TCPRec) first(kind string) *MCall {
	for i := range r.Calls {
		if r.Calls[i].Kind == kind {
			return &r.Calls[i]
		}
	}
	return nil
}

func (r *TCPRec) count(kind string) int {
	n := 0
	for _, c := range r.Calls {
		if c.Kind == kind {
			n++
		}
	}
	return n
}

func (r *TCPRec) AddAuthenticated(accessKey string) {
	r.Calls = append(r.Calls, MCall{Kind: "auth", Key: accessKey, At: simrt.Elapsed(), Seq: simrt.Steps()})
	simrt.Account(128)
	if r.inner != nil {
		r.inner.AddAuthenticated(accessKey)
	}
	r.Calls[len(r.Calls)-1].At2 = simrt.Elapsed()
}
func (r *TCPRec) AddClosed(status string, data metrics.ProxyMetrics, d time.Duration) {
	r.Calls = append(r.Calls, MCall{Kind: "closed", Status: status, Data: data, At: simrt.Elapsed(), Seq: simrt.Steps()})
	simrt.Account(128)
	if r.inner != nil {
		r.inner.AddClosed(status, data, d)
	}
	r.Calls[len(r.Calls)-1].At2 = simrt.Elapsed()
}
func (r *TCPRec) AddProbe(status, drain string, n int64) {
	r.Calls = append(r.Calls, MCall{Kind: "probe", Status: status, Drain: drain, N: n, At: simrt.Elapsed(), Seq: simrt.Steps()})
	simrt.Account(128)
	if r.inner != nil {
		r.inner.AddProbe(status, drain, n)
	}
}

type UCall struct {
	Kind   string // fromclient, fromtarget, remove
	Status string
	A, B   int64
	At     time.Duration
	Seq    int
}

type UDPRec struct {
	Client        string
	Key           string
	At            time.Duration
	At2           time.Duration // after the wrapped AddUDPNatEntry returned
	RemAt, RemAt2 time.Duration
	Calls         []UCall
	inner         service.UDPConnMetrics
}

func (r *UDPRec) count(kind string) int {
	n := 0
	for _, c := range r.Calls {
		if c.Kind == kind {
			n++
		}
	}
	return n
}

func (r *UDPRec) AddPacketFromClient(status string, a, b int64) {
	r.Calls = append(r.Calls, UCall{"fromclient", status, a, b, simrt.Elapsed(), simrt.Steps()})
	simrt.Account(128)
	if r.inner != nil {
		r.inner.AddPacketFromClient(status, a, b)
	}
}
func (r *UDPRec) AddPacketFromTarget(status string, a, b int64) {
	r.Calls = append(r.Calls, UCall{"fromtarget", status, a, b, simrt.Elapsed(), simrt.Steps()})
	simrt.Account(128)
	if r.inner != nil {
		r.inner.AddPacketFromTarget(status, a, b)
	}
}
func (r *UDPRec) RemoveNatEntry() {
	r.Calls = append(r.Calls, UCall{"remove", "", 0, 0, simrt.Elapsed(), simrt.Steps()})
	simrt.Account(128)
	r.RemAt = simrt.Elapsed()
	if r.inner != nil {
		r.inner.RemoveNatEntry()
	}
	r.RemAt2 = simrt.Elapsed()
}

// RecMetrics wraps (optionally) the real Prometheus collectors and logs every call.
type RecMetrics struct {
	Inner    service.ServiceMetrics
	TCP      []*TCPRec
	UDP      []*UDPRec
	Searches int
}

var _ service.ServiceMetrics = (*RecMetrics)(nil)

// debugLogger is a logger at debug level whose output is discarded.
func debugLogger() *slog.Logger {
	return slog.New(slog.NewTextHandler(io.Discard, &slog.HandlerOptions{Level: slog.LevelDebug}))
}

// serverEndOf identifies the simulated connection behind a net.Conn the server
// hands out (it may be a wrapper): by concrete type, else by its endpoints (the
// latest accepted connection from that remote address).
func serverEndOf(conn net.Conn) *simnet.TCPConn {
	if tc, ok := conn.(*simnet.TCPConn); ok {
		return tc
	}
	if conn == nil || conn.RemoteAddr() == nil {
		return nil
	}
	ra, la := conn.RemoteAddr().String(), ""
	if conn.LocalAddr() != nil {
		la = conn.LocalAddr().String()
	}
	cs := simnet.W().Conns
	for i := len(cs) - 1; i >= 0; i-- {
		se := cs[i].Ends[1]
		if se != nil && se.RemoteAddr().String() == ra && (la == "" || se.LocalAddr().String() == la) {
			return se
		}
	}
	return nil
}

func connIDOf(conn net.Conn) int {
	if se := serverEndOf(conn); se != nil {
		return se.Rec.ID
	}
	return 0
}

func (m *RecMetrics) AddOpenTCPConnection(conn net.Conn) service.TCPConnMetrics {
	r := &TCPRec{OpenedAt: simrt.Elapsed()}
	if se := serverEndOf(conn); se != nil {
		r.ConnID = se.Rec.ID
		r.Server = se
	}
	if m.Inner != nil {
		r.inner = m.Inner.AddOpenTCPConnection(conn)
	}
	m.TCP = append(m.TCP, r)
	return r
}

func (m *RecMetrics) AddUDPNatEntry(clientAddr net.Addr, accessKey string) service.UDPConnMetrics {
	r := &UDPRec{Client: clientAddr.String(), Key: accessKey, At: simrt.Elapsed()}
	if m.Inner != nil {
		r.inner = m.Inner.AddUDPNatEntry(clientAddr, accessKey)
	}
	r.At2 = simrt.Elapsed()
	r.RemAt = -1
	m.UDP = append(m.UDP, r)
	return r
}

func (m *RecMetrics) AddCipherSearch(proto string, found bool, d time.Duration) {
	m.Searches++
	if m.Inner != nil {
		m.Inner.AddCipherSearch(proto, found, d)
	}
}

func (m *RecMetrics) tcpFor(connID int) []*TCPRec {
	var out []*TCPRec
	for _, r := range m.TCP {
		if r.ConnID == connID {
			out = append(out, r)
		}
	}
	return out
}

// ---------- IP info fake ----------

type fakeIPInfo struct {
	Answers map[string]ipinfo.IPInfo
	Errs    map[string]bool
	Asked   []string
	// Latency of a lookup (virtual time; only inside a run)
	Latency time.Duration
}

func (f *fakeIPInfo) GetIPInfo(ip net.IP) (ipinfo.IPInfo, error) {
	if f.Latency > 0 && simrt.S != nil && simrt.Cur() != nil {
		simrt.Sleep(f.Latency)
	}
	f.Asked = append(f.Asked, ip.String())
	if f.Errs[ip.String()] {
		// possibly a partial failure: some fields filled in, plus an error
		return f.Answers[ip.String()], errors.New("db lookup failed")
	}
	return f.Answers[ip.String()], nil
}

// ---------- server under test ----------

// tcpServer is one real StreamHandler (or full Service) served by the real
// StreamServe loop over a shared listener obtained from the real ListenerManager.
type tcpServer struct {
	rc               *RunCtx
	W                *simnet.World
	IP               net.IP
	Port             int
	Ciphers          service.CipherList
	Replay           *service.ReplayCache
	M                *RecMetrics
	Timeout          time.Duration
	ln               service.StreamListener
	Served           bool         // StreamServe returned
	handlersAtReturn int          // connection handlers still alive when it returned
	handlersAfter    int          // connection handlers that were entered after it had returned
	Handled          map[int]bool // connections (ledger ids) that StreamServe passed to the handler
	handler          service.StreamHandler
}

type tcpServerOpts struct {
	Keys    []*Key
	Replay  int
	Timeout time.Duration // 0: use the full Service (59s)
	Metrics *RecMetrics
	Dialer  transport.StreamDialer // nil: the default validating dialer
	// Debug gives the handler a logger at debug level (output discarded): the
	// operator's -verbose flag; the code paths that only format debug messages run
	Debug   bool
	AddrStr string
	UseSvc  bool
}

var proxyIP = net.IPv4(203, 0, 113, 5).To4()

func startTCPServer(rc *RunCtx, w *simnet.World, o tcpServerOpts) *tcpServer {
	s := &tcpServer{rc: rc, W: w, IP: proxyIP, Port: 9000, M: o.Metrics, Timeout: o.Timeout}
	if s.M == nil {
		s.M = &RecMetrics{}
	}
	s.Ciphers = service.NewCipherList()
	s.Ciphers.Update(mkCipherList(o.Keys))
	rcache := service.NewReplayCache(o.Replay)
	s.Replay = &rcache
	addr := o.AddrStr
	if addr == "" {
		addr = net.JoinHostPort(s.IP.String(), fmt.Sprint(s.Port))
	}
	lm := service.NewListenerManager()
	ln, err := lm.ListenStream(addr)
	if err != nil {
		panic(fmt.Sprintf("harness: cannot listen: %v", err))
	}
	s.ln = ln
	var handle service.StreamHandleFunc
	if o.UseSvc || o.Timeout == 0 {
		s.Timeout = 59 * time.Second
		sopts := []service.Option{service.WithCiphers(s.Ciphers), service.WithMetrics(s.M), service.WithReplayCache(s.Replay)}
		if o.Debug {
			sopts = append(sopts, service.WithLogger(debugLogger()))
		}
		svc, err := service.NewShadowsocksService(sopts...)
		if err != nil {
			panic(err)
		}
		handle = svc.HandleStream
	} else {
		var lg *slog.Logger
		if o.Debug {
			lg = debugLogger()
		}
		auth := service.NewShadowsocksStreamAuthenticator(s.Ciphers, s.Replay, &ssm{s.M, "tcp"}, lg)
		h := service.NewStreamHandler(auth, o.Timeout)
		if o.Debug {
			h.SetLogger(lg)
		}
		if o.Dialer != nil {
			h.SetTargetDialer(o.Dialer)
		}
		s.handler = h
		handle = func(ctx context.Context, conn transport.StreamConn) {
			h.Handle(ctx, conn, s.M.AddOpenTCPConnection(conn))
		}
	}
	// "serving stops only after all running handlers have returned": count handler
	// entries and returns in the wrapper (not goroutine lifetimes, whose epilogue
	// after the handler returned is the server's own business)
	inner := handle
	entered, returned := 0, 0
	s.Handled = map[int]bool{}
	handle = func(ctx context.Context, conn transport.StreamConn) {
		entered++
		if s.Served {
			s.handlersAfter++
		}
		s.Handled[connIDOf(conn)] = true
		defer func() { returned++ }()
		inner(ctx, conn)
	}
	simrt.GoNamed("StreamServe", func() {
		service.StreamServe(ln.AcceptStream, handle)
		s.handlersAtReturn = entered - returned
		s.Served = true
	})
	return s
}

func (s *tcpServer) Stop() { s.ln.Close() }

type ssm struct {
	m     *RecMetrics
	proto string
}

func (x *ssm) AddCipherSearch(found bool, d time.Duration) { x.m.AddCipherSearch(x.proto, found, d) }

// connect opens a client connection to the server from the given client address.
func (s *tcpServer) connect(clientIP net.IP, port int) (*simnet.TCPConn, error) {
	return s.W.Connect(&net.TCPAddr{IP: clientIP, Port: port}, s.IP, s.Port)
}

// ---------- client side helpers ----------

// capture encrypts what a real SDK client would send: the returned function
// turns plaintext writes into ciphertext appended to buf.
type ssEncoder struct {
	buf bytes.Buffer
	w   *shadowsocks.Writer
	k   *Key
	reg bool
}

func newEncoder(k *Key) *ssEncoder {
	e := &ssEncoder{k: k}
	e.w = shadowsocks.NewWriter(&e.buf, k.EK)
	return e
}

// note records the stream's salt in the run's handshake registry.
func (e *ssEncoder) note() {
	if S := e.k.EK.SaltSize(); !e.reg && e.buf.Len() >= S {
		e.reg = true
		if r := hsRegistry(); r != nil {
			r.hs = append(r.hs, hsRec{e.k, append([]byte(nil), e.buf.Bytes()[:S]...)})
		}
	}
}

// Chunk encrypts p as one or more chunks (≤16383 bytes each) and returns the
// ciphertext produced by this call (including the salt on the first call).
func (e *ssEncoder) Chunk(p []byte) []byte {
	before := e.buf.Len()
	if _, err := e.w.Write(p); err != nil {
		panic(err)
	}
	e.note()
	return append([]byte(nil), e.buf.Bytes()[before:]...)
}

// Lazy queues p to be coalesced with the next Chunk.
func (e *ssEncoder) Lazy(p []byte) {
	if _, err := e.w.LazyWrite(p); err != nil {
		panic(err)
	}
}

func (e *ssEncoder) Flush() []byte {
	before := e.buf.Len()
	e.w.Flush()
	e.note()
	return append([]byte(nil), e.buf.Bytes()[before:]...)
}

func socksAddr(hostport string) []byte {
	a := socks.ParseAddr(hostport)
	if a == nil {
		panic("bad socks addr " + hostport)
	}
	return []byte(a)
}

// writeSegmented writes b to c in segments drawn from G (sizes 1..len).
func writeSegmented(G *simrt.Tape, c io.Writer, b []byte, maxSegs int) error {
	for len(b) > 0 {
		n := len(b)
		if maxSegs > 1 && n > 1 && G.Draw(3) != 0 {
			n = 1 + G.Draw(n)
			maxSegs--
		}
		if _, err := c.Write(b[:n]); err != nil {
			return err
		}
		b = b[n:]
		if G.Draw(4) == 0 {
			simrt.Yield()
		}
	}
	return nil
}

// readAll reads c until error/EOF and returns what was read.
func readAll(c io.Reader) ([]byte, error) {
	var out []byte
	buf := make([]byte, 32*1024)
	for {
		n, err := c.Read(buf)
		out = append(out, buf[:n]...)
		if err != nil {
			if err == io.EOF {
				return out, nil
			}
			return out, err
		}
	}
}

// ---------- targets ----------

// target is a scripted TCP peer on a public address.
type target struct {
	L      *simnet.TCPListener
	IP     net.IP
	Port   int
	Conns  []*targetConn
	OnConn func(tc *targetConn)
}

type targetConn struct {
	C        *simnet.TCPConn
	Got      []byte
	SawEOF   bool
	EOFAt    time.Duration
	GotAtEOF int
	ReadErr  error
	Done     bool
}

func startTarget(w *simnet.World, ip net.IP, port int, onConn func(tc *targetConn)) *target {
	l, err := simnet.ListenTCP("tcp", &net.TCPAddr{IP: ip, Port: port})
	if err != nil {
		panic(err)
	}
	l.Foreign = true
	t := &target{L: l, IP: ip, Port: port, OnConn: onConn}
	simrt.GoDaemon(fmt.Sprintf("target-%s:%d", ip, port), func() {
		for {
			c, err := l.AcceptTCP()
			if err != nil {
				return
			}
			tc := &targetConn{C: c}
			t.Conns = append(t.Conns, tc)
			simrt.GoNamed("target-conn", func() {
				onConn(tc)
				tc.Done = true
			})
		}
	})
	return t
}

func (t *target) Addr() string { return net.JoinHostPort(t.IP.String(), fmt.Sprint(t.Port)) }

func payload(G *simrt.Tape, n int) []byte { return G.Bytes(n) }

func minInt(a, b int) int {
	if a < b {
		return a
	}
	return b
}

func prefixOf(short, long []byte) bool {
	return len(short) <= len(long) && bytes.Equal(short, long[:len(short)])
}

func firstDiff(a, b []byte) int {
	n := minInt(len(a), len(b))
	for i := 0; i < n; i++ {
		if a[i] != b[i] {
			return i
		}
	}
	return n
}

// flag is a one-shot simulated event harness tasks can wait for.
type flag struct {
	set     bool
	waiters []*simrt.Task
}

func (f *flag) Set() {
	f.set = true
	w := f.waiters
	f.waiters = nil
	for _, t := range w {
		simrt.Unblock(t)
	}
}

func (f *flag) Wait() {
	for !f.set {
		f.waiters = append(f.waiters, simrt.Cur())
		simrt.Block("harness flag", nil)
	}
}

// WaitFor waits until the flag is set or d of virtual time passed; reports whether it was set.
func (f *flag) WaitFor(d time.Duration) bool {
	if f.set {
		return true
	}
	t := simrt.Cur()
	expired := false
	ev := simrt.After(d, func() { expired = true; simrt.Unblock(t) })
	for !f.set && !expired {
		f.waiters = append(f.waiters, t)
		simrt.Block("harness flag (timed)", nil)
	}
	ev.Cancel()
	return f.set
}

// mkKeyUnchecked makes a key whose cipher may be unsupported (config poison).
func mkKeyUnchecked(id, cipher, secret string) *Key {
	return &Key{ID: id, Cipher: cipher, Secret: secret}
}
