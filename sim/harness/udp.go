package verifharness

import (
	"bytes"
	"fmt"
	"net"
	"sort"
	"time"

	"github.com/Jigsaw-Code/outline-sdk/transport/shadowsocks"
	onet "github.com/Jigsaw-Code/outline-ss-server/net"
	"github.com/Jigsaw-Code/outline-ss-server/service"
	"github.com/Jigsaw-Code/outline-ss-server/verifrt/simnet"
	"github.com/Jigsaw-Code/outline-ss-server/verifrt/simrt"
	"github.com/shadowsocks/go-shadowsocks2/socks"
)

// ---------- UDP server under test ----------

type udpServer struct {
	W       *simnet.World
	Sock    *simnet.UDPConn   // the (first) listening socket
	PC      net.PacketConn    // the virtual handle given to the handler
	Socks   []*simnet.UDPConn // all listening sockets served by the one handler
	PCs     []net.PacketConn
	nDone   int
	M       *RecMetrics
	Ciphers service.CipherList
	Done    bool
	Timeout time.Duration
}

type udpServerOpts struct {
	Keys      []*Key
	Timeout   time.Duration
	Metrics   *RecMetrics
	Validator onet.TargetIPValidator
	// Direct hands the simulated socket itself to the handler (no shared
	// listener in between), so that the socket's read log is the handler's.
	Direct bool
	// Listeners > 1: several packet listeners (ports 9000, 9001, ...) served by
	// the same PacketHandler, as a service with several UDP listeners does.
	Listeners int
}

func startUDPServer(rc *RunCtx, w *simnet.World, o udpServerOpts) *udpServer {
	s := &udpServer{W: w, M: o.Metrics, Timeout: o.Timeout}
	if s.M == nil {
		s.M = &RecMetrics{}
	}
	s.Ciphers = service.NewCipherList()
	s.Ciphers.Update(mkCipherList(o.Keys))
	var pc net.PacketConn
	var err error
	if o.Direct {
		pc, err = simnet.ListenPacket("udp", net.JoinHostPort(proxyIP.String(), "9000"))
	} else {
		pc, err = service.NewListenerManager().ListenPacket(net.JoinHostPort(proxyIP.String(), "9000"))
	}
	if err != nil {
		panic(err)
	}
	s.PC = pc
	s.Sock = w.UDPBound(proxyIP, 9000)
	s.Socks = []*simnet.UDPConn{s.Sock}
	s.PCs = []net.PacketConn{pc}
	h := service.NewPacketHandler(o.Timeout, s.Ciphers, s.M, &ssm{s.M, "udp"})
	if o.Validator != nil {
		h.SetTargetIPValidator(o.Validator)
	}
	lm := service.NewListenerManager()
	for i := 1; i < o.Listeners; i++ {
		pc2, err := lm.ListenPacket(net.JoinHostPort(proxyIP.String(), fmt.Sprint(9000+i)))
		if err != nil {
			panic(err)
		}
		s.PCs = append(s.PCs, pc2)
		s.Socks = append(s.Socks, w.UDPBound(proxyIP, 9000+i))
	}
	n := len(s.PCs)
	for i, p := range s.PCs {
		p := p
		simrt.GoNamed(fmt.Sprintf("HandlePacket-%d", i), func() {
			h.Handle(p)
			s.nDone++
			s.Done = s.nDone == n
		})
	}
	return s
}

func (s *udpServer) Stop() {
	for _, p := range s.PCs {
		p.Close()
	}
}

func (s *udpServer) isListen(c *simnet.UDPConn) bool {
	for _, x := range s.Socks {
		if x == c {
			return true
		}
	}
	return false
}

// ---------- datagram construction ----------

func packUDP(k *Key, plaintext []byte) []byte {
	dst := make([]byte, k.EK.SaltSize()+len(plaintext)+k.EK.TagSize())
	out, err := shadowsocks.Pack(dst, plaintext, k.EK)
	if err != nil {
		panic(err)
	}
	return out
}

type uClient struct {
	ls    int // which listener of the service this client talks to
	idx   int
	addr  *net.UDPAddr
	sock  *simnet.UDPConn
	key   *Key
	specs []*uSpec
}

// uSpec is one datagram a client sends.
type uSpec struct {
	id      string
	client  *uClient
	key     *Key
	kind    string // valid, unconfigured, random, truncated, badaddr, wrongkey
	wire    []byte
	payload []byte
	dest    *net.UDPAddr
	destStr string
	destOK  bool // destination allowed by the default policy and resolvable
	addrOK  bool // address header parses
	destErr string
	rec     *simnet.DgramRec
}

// tSpec is one datagram a target (or stranger) sends to a proxy outbound address.
type tSpec struct {
	id      string
	from    *net.UDPAddr
	to      *net.UDPAddr
	payload []byte
	rec     *simnet.DgramRec
}

type udpRun struct {
	rc       *RunCtx
	w        *simnet.World
	srv      *udpServer
	keys     []*Key // configured
	clients  []*uClient
	tspecs   map[string]*tSpec
	specs    map[string]*uSpec
	specList []*uSpec
	which    string
	// empty-payload datagrams by their (unique) destination port
	emptyByPort map[int]*uSpec
	// stopAt: virtual time at which the listener was closed with associations
	// still alive (-1: closed after everything expired)
	stopAt time.Duration
	// lateDst: (target socket, association source address) pairs seen by targets
	lateDst []lateDst
}

type lateDst struct {
	sock *simnet.UDPConn
	to   *net.UDPAddr
}

// f records a violation only when the scenario decides the property the oracle
// belongs to (the run shape is shared by C03, C04 and C16).
func (r *udpRun) f(prop, sig, format string, a ...any) {
	if r.which == prop {
		r.rc.Failf(sig, format, a...)
	}
}

// assoc is the reference model's view of one association.
type assoc struct {
	client  *uClient
	key     *Key
	created *uSpec
	sock    *simnet.UDPConn
	// expected metric calls in order
	fromClient []UCall
}

func idOf(p []byte) string {
	if i := bytes.IndexByte(p, '|'); i > 0 && i < 24 {
		return string(p[:i])
	}
	return ""
}

func configured(keys []*Key, k *Key) bool {
	for _, x := range keys {
		if sameCrypto(x, k) {
			return true
		}
	}
	return false
}

var udpTargetsV4 = []string{"93.184.216.34", "93.184.216.35", "151.101.1.69"}
var udpTargetsV6 = []string{"2606:2800:220:1::248", "2a00:1450:4001:81b::200e"}

// runUDP is the run shape shared by C03, C04 and C16.
func runUDP(rc *RunCtx, which string) {
	G := rc.G
	F := rc.F
	w := simnet.NewWorld()
	faults := F.Draw(5) != 0
	if faults {
		if F.Draw(2) == 1 {
			w.UDPLoss = []int{30, 150}[F.Draw(2)]
		}
		if F.Draw(2) == 1 {
			w.UDPDup = []int{50, 200}[F.Draw(2)]
		}
		if F.Draw(2) == 1 {
			w.UDPDelay = []int{100, 400}[F.Draw(2)]
		}
	}
	U := genKeys(G, 1+G.Draw(8), "")
	var cfg []*Key
	for _, k := range U {
		if G.Draw(4) != 0 {
			cfg = append(cfg, k)
		}
	}
	if len(cfg) == 0 {
		cfg = U[:1]
	}
	m := &RecMetrics{}
	if which == "c16" {
		m.Inner = newPromMetrics(rc)
		if F.Draw(3) == 1 {
			w.UDPWriteErrBound = []int{100, 400}[F.Draw(2)] // replies to the client fail now and then
		}
		if F.Draw(4) == 1 {
			w.UDPWriteErr = []int{100, 400}[F.Draw(2)] // forwards to the target fail now and then
		}
		if F.Draw(4) == 1 {
			w.UDPSockErr = []int{200, 600}[F.Draw(2)] // outbound sockets cannot always be created
		}
	}
	nL := 1
	if which != "c16" && G.Draw(3) == 0 {
		nL = 2 // two listeners of one service share the handler
		simrt.Probe("two_listeners_one_handler")
	}
	srv := startUDPServer(rc, w, udpServerOpts{Keys: cfg, Timeout: 5 * time.Minute, Metrics: m, Listeners: nL})
	r := &udpRun{which: which, rc: rc, w: w, srv: srv, keys: cfg, tspecs: map[string]*tSpec{}, specs: map[string]*uSpec{}, emptyByPort: map[int]*uSpec{}, stopAt: -1}
	// targets
	nT := 1 + G.Draw(3)
	var targets []*simnet.UDPConn
	for i := 0; i < nT; i++ {
		var ip net.IP
		if G.Draw(3) == 0 {
			ip = net.ParseIP(udpTargetsV6[i%len(udpTargetsV6)])
		} else {
			ip = net.ParseIP(udpTargetsV4[i%len(udpTargetsV4)]).To4()
		}
		ts, err := w.BindUDP(&net.UDPAddr{IP: ip, Port: 4000 + i})
		if err != nil {
			panic(err)
		}
		targets = append(targets, ts)
	}
	stranger, _ := w.BindUDP(&net.UDPAddr{IP: net.ParseIP("192.0.32.8").To4(), Port: 777})
	// a second sender on each target's own IP (same host, another port)
	var siblings []*simnet.UDPConn
	for i, ts := range targets {
		sb, err := w.BindUDP(&net.UDPAddr{IP: ts.LocalAddr().(*net.UDPAddr).IP, Port: 4100 + i})
		if err != nil {
			panic(err)
		}
		siblings = append(siblings, sb)
	}
	nReply := 0
	bigReplies := G.Draw(4) == 0
	for ti, ts := range targets {
		ts := ts
		ti := ti
		nrep := []int{1, 0, 2}[G.Draw(3)]
		useStranger := G.Draw(4) == 0
		useSibling := G.Draw(3) == 0
		simrt.GoDaemon(fmt.Sprintf("udp-target-%d", ti), func() {
			buf := make([]byte, 70000)
			for {
				_, from, err := ts.ReadFromUDP(buf)
				if err != nil {
					return
				}
				r.lateDst = append(r.lateDst, lateDst{ts, from})
				for k := 0; k < nrep; k++ {
					nReply++
					sz := []int{0, 1, 30, 500, 1400}[G.Draw(5)]
					if bigReplies {
						sz = []int{9000, 65000, 65400, 65450, 65507 - 20}[G.Draw(5)]
					}
					id := fmt.Sprintf("t%d-%d", ti, nReply)
					p := append([]byte(id+"|"), payload(G, sz)...)
					if which == "c16" && G.Draw(8) == 0 {
						p = nil // a datagram with no payload at all is a datagram too
						simrt.Probe("empty_datagram_from_target")
					}
					sock := ts
					if useStranger && k == 1 {
						sock = stranger
					} else if useSibling && k == nrep-1 {
						sock = siblings[ti]
					}
					sock.WriteToUDP(p, from)
					if rec := sock.LastSent; rec != nil {
						r.tspecs[id] = &tSpec{id: id, from: rec.From, to: from, payload: p, rec: rec}
					}
				}
			}
		})
	}
	// clients
	nC := 1 + G.Draw(5)
	if rc.Tier == "thorough" && G.Draw(4) == 0 {
		nC = 1 + G.Draw(12)
	}
	for i := 0; i < nC; i++ {
		var addr *net.UDPAddr
		switch G.Draw(4) {
		case 0: // same IP as the previous client, different port
			if i > 0 {
				addr = &net.UDPAddr{IP: r.clients[i-1].addr.IP, Port: 6000 + i}
				break
			}
			fallthrough
		case 1:
			addr = &net.UDPAddr{IP: net.ParseIP(fmt.Sprintf("2001:db8:c::%x", i+1)), Port: 6000 + i}
		default:
			addr = &net.UDPAddr{IP: net.IPv4(198, 18, 5, byte(i+1)).To4(), Port: 6000 + i}
		}
		sock, err := w.BindUDP(addr)
		if err != nil {
			panic(err)
		}
		c := &uClient{idx: i, addr: addr, sock: sock, key: U[G.Draw(len(U))], ls: G.Draw(nL)}
		if G.Draw(3) != 0 {
			c.key = cfg[G.Draw(len(cfg))]
		}
		r.clients = append(r.clients, c)
		nD := 1 + G.Draw(6)
		for k := 0; k < nD; k++ {
			s := &uSpec{id: fmt.Sprintf("c%d-%d", i, k), client: c, key: c.key, kind: "valid", addrOK: true, destOK: true}
			t := targets[G.Draw(len(targets))]
			ta := t.LocalAddr().(*net.UDPAddr)
			s.dest = ta
			s.destStr = ta.String()
			switch G.Draw(12) {
			case 0:
				s.kind = "unconfigured"
				s.key = mkKey("nokey", cipherNames[G.Draw(4)], fmt.Sprintf("unconfigured-%d", G.Draw(3)))
			case 1:
				s.kind = "wrongkey"
				s.key = U[G.Draw(len(U))]
			case 2:
				s.kind = "random"
			case 3:
				s.kind = "truncated"
			case 4:
				s.kind = "badaddr"
				s.addrOK = false
			case 5: // disallowed destination
				s.destOK = false
				bad := []string{"10.0.0.1:53000", "127.0.0.1:4000", "192.168.1.1:4000", "[fc00::1]:4000", "100.64.0.1:4000", "169.254.1.1:4000", "224.0.0.1:4000", "0.0.0.0:4000"}
				s.destStr = bad[G.Draw(len(bad))]
				s.dest, _ = net.ResolveUDPAddr("udp", s.destStr)
			case 6: // a host name that does not resolve: no destination at all
				s.destOK = false
				s.destErr = "resolve"
				s.destStr = fmt.Sprintf("no-such-host-%d.example.net:4000", G.Draw(3))
				s.dest = nil
			}
			psz := []int{0, 1, 10, 100, 1200, 1472}[G.Draw(6)]
			if G.Draw(10) == 0 {
				psz = []int{8000, 60000, 65000}[G.Draw(3)]
			}
			s.payload = append([]byte(s.id+"|"), payload(G, psz)...)
			if psz == 0 && G.Draw(2) == 0 {
				// truly empty payload (address only): it carries no id, so it is
				// identified by a destination port no other datagram uses
				s.payload = nil
				s.id = s.id + "-empty"
				if s.destOK {
					s.dest = &net.UDPAddr{IP: ta.IP, Port: 10000 + len(r.specList)}
					s.destStr = s.dest.String()
					r.emptyByPort[s.dest.Port] = s
				}
			}
			var plain []byte
			if s.kind == "badaddr" {
				switch G.Draw(3) {
				case 0:
					plain = []byte{1, 9, 9} // truncated IPv4 address
				case 1:
					plain = append([]byte{7}, s.payload...) // unknown address type
				default:
					plain = []byte{3, 200, 'a', 'b'} // domain length beyond the data
				}
			} else {
				plain = append(append([]byte{}, socksAddr(s.destStr)...), s.payload...)
			}
			switch s.kind {
			case "random":
				s.wire = payload(G, G.Draw(120))
			case "truncated":
				full := packUDP(s.key, plain)
				S := s.key.EK.SaltSize()
				cuts := []int{0, 1, S - 1, S, S + 1, S + 15, S + 16, len(full) - 1}
				cut := cuts[G.Draw(len(cuts))]
				if cut > len(full)-1 {
					cut = len(full) - 1
				}
				s.wire = full[:cut]
			default:
				s.wire = packUDP(s.key, plain)
			}
			if len(s.wire) > 65507 {
				s.wire = s.wire[:65507]
				s.kind = "truncated"
			}
			c.specs = append(c.specs, s)
			r.specs[s.id] = s
			r.specList = append(r.specList, s)
			rc.D("client %d (%v key %s) dgram %s kind=%s key=%s dest=%s payload=%d wire=%d", i, addr, c.key.ID, s.id, s.kind, s.key.ID, s.destStr, len(s.payload), len(s.wire))
		}
	}
	rc.Phase = "traffic"
	for _, c := range r.clients {
		c := c
		js := make([]func(), len(c.specs))
		for i := range js {
			js[i] = jitter(G)
		}
		simrt.GoNamed(fmt.Sprintf("udp-client-%d", c.idx), func() {
			for i, s := range c.specs {
				js[i]()
				c.sock.WriteToUDP(s.wire, &net.UDPAddr{IP: proxyIP, Port: 9000 + c.ls})
				s.rec = c.sock.LastSent
			}
		})
	}
	if G.Draw(2) == 0 {
		// settle without letting the associations expire (NAT timeout 5 min, all
		// delays are below a second): the listener is then shut down with live
		// associations, while a few late replies from the targets are in flight
		simrt.Sleep(10 * time.Second)
		simrt.Probe("shutdown_with_live_associations")
		r.stopAt = simrt.Elapsed()
		nLate := 0
		if len(r.lateDst) > 0 {
			nLate = G.Draw(4)
		}
		for k := 0; k < nLate; k++ {
			k := k
			d := r.lateDst[G.Draw(len(r.lateDst))]
			j := jitter(G)
			sz := []int{0, 30, 500}[G.Draw(3)]
			simrt.GoNamed(fmt.Sprintf("udp-late-reply-%d", k), func() {
				j()
				id := fmt.Sprintf("tlate-%d", k)
				p := append([]byte(id+"|"), payload(G, sz)...)
				d.sock.WriteToUDP(p, d.to)
				if rec := d.sock.LastSent; rec != nil {
					r.tspecs[id] = &tSpec{id: id, from: rec.From, to: d.to, payload: p, rec: rec}
				}
				simrt.Probe("reply_in_flight_at_shutdown")
			})
		}
		jitter(G)()
		rc.Phase = "stop"
		srv.Stop()
		simrt.Quiesce()
		rc.Phase = "check"
		r.check(which)
	} else {
		simrt.Quiesce()
		rc.Phase = "check"
		r.check(which)
		rc.Phase = "stop"
		srv.Stop()
		simrt.Quiesce()
	}
	if which == "c16" {
		r.checkStopped()
	}
	rc.Phase = "done"
}

// isAuthentic: does the datagram decrypt under key k?
func (s *uSpec) validUnder(k *Key) bool {
	switch s.kind {
	case "random", "truncated":
		return false
	}
	return sameCrypto(s.key, k)
}

func (r *udpRun) check(which string) {
	rc, w, srv := r.rc, r.w, r.srv
	byRec := map[*simnet.DgramRec]*uSpec{}
	for _, s := range r.specList {
		if s.rec != nil {
			byRec[s.rec] = s
		}
	}
	// ---- reference model: walk what the proxy socket actually read, in order ----
	nat := map[string]*assoc{}
	var assocs []*assoc
	expFwd := map[*uSpec]int{}
	type expCall struct {
		a    *assoc
		call UCall
	}
	var allReads []*simnet.DgramRec
	for _, ls := range srv.Socks {
		allReads = append(allReads, ls.ReadLog...) // one natmap per Handle call; a client uses one listener
	}
	// forward attempts per client datagram, successful or failed (injected
	// ENETUNREACH), in the order they were made
	specOf := func(d *simnet.DgramRec) *uSpec {
		if id := idOf(d.Payload); id != "" {
			return r.specs[id]
		}
		if len(d.Payload) == 0 {
			return r.emptyByPort[d.To.Port]
		}
		return nil
	}
	attempts := map[*uSpec][]*simnet.DgramRec{}
	for _, d := range w.Dgrams {
		if !d.FromSock.Foreign && !srv.isListen(d.FromSock) {
			if s := specOf(d); s != nil {
				attempts[s] = append(attempts[s], d)
			}
		}
	}
	for _, d := range w.WriteFails {
		if !srv.isListen(d.FromSock) {
			if s := specOf(d); s != nil {
				attempts[s] = append(attempts[s], d)
			}
		}
	}
	for _, l := range attempts {
		sort.SliceStable(l, func(i, j int) bool { return l[i].ESeq < l[j].ESeq })
	}
	nOK := map[*uSpec]int{}
	sockAttempt := 0
	for _, rec := range allReads {
		s := byRec[rec]
		if s == nil {
			rc.Failf("harness:unknown-datagram-at-proxy", "proxy read a datagram the harness did not send")
			continue
		}
		ca := s.client.addr.String()
		a := nat[ca]
		status := ""
		if a == nil {
			if !(s.kind == "valid" || s.kind == "wrongkey" || s.kind == "badaddr") || !configured(r.keys, s.key) {
				continue // authenticates under no key: no association, no report
			}
			if !s.addrOK || !s.destOK {
				continue // authenticated but not forwardable: no association
			}
			sockAttempt++
			if sockAttempt <= len(w.SockAttempts) && !w.SockAttempts[sockAttempt-1] {
				simrt.Probe("association_not_created_socket_error")
				continue // the outbound socket could not be created: no association, no report
			}
			a = &assoc{client: s.client, key: s.key, created: s}
			nat[ca] = a
			assocs = append(assocs, a)
			status = "OK"
		} else {
			switch {
			case !s.validUnder(a.key):
				status = "ERR_CIPHER"
			case !s.addrOK:
				status = "ERR_READ_ADDRESS"
			case !s.destOK:
				status = "ERR_ADDRESS" // _INVALID or _PRIVATE
				if s.destErr == "resolve" {
					status = "ERR_RESOLVE|ERR_ADDRESS" // either word names it
				}
			default:
				status = "OK"
			}
		}
		c := UCall{Kind: "fromclient", Status: status, A: int64(len(s.wire))}
		if status == "OK" {
			k := nOK[s]
			nOK[s]++
			if at := attempts[s]; k < len(at) && at[k].Fate == "write-error" {
				c.Status = "ERR_WRITE"
				simrt.Probe("forward_failed_write_error")
			} else {
				expFwd[s]++
				c.B = int64(len(s.payload))
			}
		}
		a.fromClient = append(a.fromClient, c)
	}
	if len(assocs) > 0 {
		rc.Nontrivial = true
	}
	rc.State(fmt.Sprintf("assocs=%d clients=%d", len(assocs), len(r.clients)))
	// ---- what the proxy actually sent ----
	actFwd := map[*uSpec]int{}
	sockOf := map[*uClient]map[*simnet.UDPConn]bool{}
	ownerOf := map[*simnet.UDPConn]map[*uClient]bool{}
	var replies []*simnet.DgramRec
	for _, d := range w.Dgrams {
		if d.FromSock.Foreign {
			continue
		}
		if srv.isListen(d.FromSock) {
			replies = append(replies, d)
			continue
		}
		// outbound datagram towards a target
		id := idOf(d.Payload)
		var s *uSpec
		if id != "" {
			s = r.specs[id]
		} else if len(d.Payload) == 0 {
			s = r.emptyByPort[d.To.Port]
		}
		if s == nil {
			r.f("c03", "c03:forwarded-unknown-payload", "proxy sent %d bytes to %v that match no client datagram's payload (first bytes %q)", len(d.Payload), d.To, d.Payload[:minInt(24, len(d.Payload))])
			continue
		}
		actFwd[s]++
		if !bytes.Equal(d.Payload, s.payload) {
			r.f("c03", "c03:payload-modified", "datagram %s: target %v received %d bytes, client payload after the address header was %d bytes; first difference at %d", s.id, d.To, len(d.Payload), len(s.payload), firstDiff(d.Payload, s.payload))
		}
		if s.dest == nil || d.To.Port != s.dest.Port || !d.To.IP.Equal(s.dest.IP) {
			r.f("c03", "c03:wrong-destination", "datagram %s addressed to %s was sent to %v", s.id, s.destStr, d.To)
		}
		if sockOf[s.client] == nil {
			sockOf[s.client] = map[*simnet.UDPConn]bool{}
		}
		sockOf[s.client][d.FromSock] = true
		if ownerOf[d.FromSock] == nil {
			ownerOf[d.FromSock] = map[*uClient]bool{}
		}
		ownerOf[d.FromSock][s.client] = true
	}
	if which == "c03" {
		for _, s := range r.specList {
			e, a := expFwd[s], actFwd[s]
			if a > e {
				why := "it authenticates under no configured key"
				if configured(r.keys, s.key) && s.kind != "random" && s.kind != "truncated" {
					why = "it is not valid for its association / destination"
				}
				r.f("c03", "c03:forwarded-unauthenticated:"+s.kind, "datagram %s (kind %s, key %s) was forwarded %d times, expected %d: %s", s.id, s.kind, s.key.ID, a, e, why)
			} else if a < e {
				r.f("c03", "c03:valid-datagram-not-forwarded", "datagram %s (valid under %s, destination %s) reached the proxy %d times but was forwarded %d times", s.id, s.key.ID, s.destStr, e, a)
			}
		}
	}
	if which == "c04" {
		for c, socks := range sockOf {
			if len(socks) > 1 {
				r.f("c04", "c04:source-address-changed", "client %v: datagrams left the proxy from %d different source sockets while the association was alive", c.addr, len(socks))
			}
		}
		for sk, owners := range ownerOf {
			if len(owners) > 1 {
				r.f("c04", "c04:source-address-shared", "outbound socket %v carried datagrams of %d different client addresses", sk.LocalAddr(), len(owners))
			}
		}
	}
	// outbound sockets created
	var outSocks []*simnet.UDPConn
	for _, sk := range w.Socks {
		if !sk.Foreign && !srv.isListen(sk) {
			outSocks = append(outSocks, sk)
		}
	}
	// sockets that carried traffic (a socket that never sends is no association)
	usedSocks := map[*simnet.UDPConn]bool{}
	for _, d := range w.Dgrams {
		if !d.FromSock.Foreign && !srv.isListen(d.FromSock) {
			usedSocks[d.FromSock] = true
		}
	}
	if len(usedSocks) > len(assocs) {
		p := "c04"
		if which != "c04" {
			p = "c03"
		}
		if which != "c16" {
			rc.Failf(p+":outbound-socket-count", "%d outbound sockets carried traffic, the reference model has %d associations (authenticated first datagrams with an allowed destination)", len(usedSocks), len(assocs))
		}
	}
	// ---- replies ----
	ownerClient := func(sk *simnet.UDPConn) *uClient {
		var best *uClient
		for c := range ownerOf[sk] {
			if best == nil || c.idx < best.idx {
				best = c
			}
		}
		return best
	}
	expReply := map[string]int{} // "tid>clientaddr" -> count
	optReply := map[string]int{} // read at or after the listener's shutdown: delivery optional
	for _, sk := range outSocks {
		c := ownerClient(sk)
		for i, rec := range sk.ReadLog {
			id := idOf(rec.Payload)
			if c != nil {
				if r.stopAt >= 0 && sk.ReadAts[i] >= r.stopAt {
					optReply[id+">"+c.addr.String()]++
				} else {
					expReply[id+">"+c.addr.String()]++
				}
			}
		}
	}
	actReply := map[string]int{}
	salts := map[string]bool{}
	for _, d := range replies {
		var c *uClient
		for _, x := range r.clients {
			if x.addr.Port == d.To.Port && x.addr.IP.Equal(d.To.IP) {
				c = x
			}
		}
		if c == nil {
			r.f("c04", "c04:reply-to-unknown-address", "proxy sent a datagram to %v, which is no client's address", d.To)
			continue
		}
		a := nat[c.addr.String()]
		if a == nil {
			r.f("c04", "c04:reply-without-association", "proxy sent a datagram to client %v, which has no association", d.To)
			continue
		}
		plain, err := shadowsocks.Unpack(nil, d.Payload, a.key.EK)
		if err != nil {
			if which == "c03" {
				r.f("c03", "c03:reply-not-under-association-key", "reply to client %v does not decrypt under the association's key %s: %v", d.To, a.key.ID, err)
			}
			continue
		}
		S := a.key.EK.SaltSize()
		salt := string(d.Payload[:S])
		if salts[salt] && which == "c03" && d.Delivered <= 1 {
			r.f("c03", "c03:reply-salt-reused", "two replies carried the same %d-byte salt", S)
		}
		salts[salt] = true
		src := socks.SplitAddr(plain)
		if src == nil {
			if which == "c03" {
				r.f("c03", "c03:reply-address-unparseable", "reply to %v carries no parseable source address", d.To)
			}
			continue
		}
		body := plain[len(src):]
		tid := idOf(body)
		t := r.tspecs[tid]
		if t == nil {
			if which == "c03" {
				r.f("c03", "c03:reply-unknown-payload", "reply to %v carries a payload no target sent (%d bytes)", d.To, len(body))
			}
			continue
		}
		actReply[tid+">"+c.addr.String()]++
		if which == "c03" {
			if !bytes.Equal(body, t.payload) {
				r.f("c03", "c03:reply-payload-modified", "reply %s: client got %d bytes, target sent %d; first difference at %d", tid, len(body), len(t.payload), firstDiff(body, t.payload))
			}
			sa, err := net.ResolveUDPAddr("udp", src.String())
			if err != nil || sa.Port != t.from.Port || !sa.IP.Equal(t.from.IP) {
				r.f("c03", "c03:reply-wrong-source", "reply %s: embedded source address %s, true sender %v", tid, src.String(), t.from)
			} else {
				want4 := t.from.IP.To4() != nil
				got4 := src[0] == socks.AtypIPv4
				if src[0] == socks.AtypDomainName || want4 != got4 {
					r.f("c03", "c03:reply-source-family", "reply %s: true sender %v but the embedded address has type %d", tid, t.from, src[0])
				}
			}
		}
	}
	if which == "c04" {
		for k, e := range expReply {
			tid := k[:bytes.IndexByte([]byte(k), '>')]
			t := r.tspecs[tid]
			if t != nil && len(t.payload) > 60000 {
				continue // may legitimately not fit into one datagram once encrypted
			}
			if actReply[k] < e {
				r.f("c04", "c04:reply-not-delivered", "datagram %s arrived %d times at the association's source address but was relayed to the client %d times", k, e, actReply[k])
			}
		}
		for k, a := range actReply {
			if a > expReply[k]+optReply[k] {
				r.f("c04", "c04:reply-misdelivered", "datagram %s was relayed %d times, expected %d (delivered to a client that does not own the source address?)", k, a, expReply[k])
			}
		}
	}
	if which == "c16" {
		r.checkMetrics(assocs, outSocks, ownerClient)
	}
}

func init() {
	Register(&Scenario{Name: "c03", Prop: "C03", MaxSteps: 100000, Run: func(rc *RunCtx) { runUDP(rc, "c03") }})
	Register(&Scenario{Name: "c04", Prop: "C04", MaxSteps: 100000, Run: func(rc *RunCtx) { runUDP(rc, "c04") }})
}
