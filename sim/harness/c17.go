package verifharness

import (
	"fmt"
	"math"
	"net"
	"sort"
	"strings"
	"time"

	"github.com/Jigsaw-Code/outline-ss-server/ipinfo"
	"github.com/Jigsaw-Code/outline-ss-server/service/metrics"
	"github.com/Jigsaw-Code/outline-ss-server/verifrt/simnet"
	"github.com/Jigsaw-Code/outline-ss-server/verifrt/simrt"
	"github.com/prometheus/client_golang/prometheus"
	dto "github.com/prometheus/client_model/go"
)

// C17 — tunnel time equals the time each client actually had a tunnel open.
func init() {
	Register(&Scenario{Name: "c17", Prop: "C17", MaxSteps: 100000, Tick: true, Run: func(rc *RunCtx) { runC17(rc) }})
}

type fakeConn struct {
	net.Conn
	remote, local net.Addr
}

func (f *fakeConn) RemoteAddr() net.Addr { return f.remote }
func (f *fakeConn) LocalAddr() net.Addr  { return f.local }

// strAddr is a net.Addr with an arbitrary textual form.
type strAddr string

func (s strAddr) Network() string { return "tcp" }
func (s strAddr) String() string  { return string(s) }

type c17iv struct {
	ip, key        string
	s0, s1, e0, e1 time.Duration // start in [s0,s1], end in [e0,e1]; e0<0: still open
}

// unionLen returns the measure of the union of intervals clipped to [0,upTo].
func unionLen(iv [][2]time.Duration, upTo time.Duration) time.Duration {
	var cl [][2]time.Duration
	for _, x := range iv {
		a, b := x[0], x[1]
		if b > upTo {
			b = upTo
		}
		if b > a {
			cl = append(cl, [2]time.Duration{a, b})
		}
	}
	sort.Slice(cl, func(i, j int) bool { return cl[i][0] < cl[j][0] })
	var tot, curA, curB time.Duration
	started := false
	for _, x := range cl {
		if !started {
			curA, curB, started = x[0], x[1], true
			continue
		}
		if x[0] <= curB {
			if x[1] > curB {
				curB = x[1]
			}
		} else {
			tot += curB - curA
			curA, curB = x[0], x[1]
		}
	}
	if started {
		tot += curB - curA
	}
	return tot
}

type slowIPInfo struct {
	fakeIPInfo
	G *simrt.Tape
}

func (f *slowIPInfo) GetIPInfo(ip net.IP) (ipinfo.IPInfo, error) {
	if f.G.Draw(4) == 0 {
		simrt.Sleep(time.Duration(1+f.G.Draw(3)) * time.Millisecond) // database latency, under the collector's lock
	}
	return f.fakeIPInfo.GetIPInfo(ip)
}

func collectFamilies(c prometheus.Collector) (vals map[string]map[string]float64, panicked any) {
	ch := make(chan prometheus.Metric, 100000)
	func() {
		defer func() { panicked = recover() }()
		c.Collect(ch)
	}()
	close(ch)
	vals = map[string]map[string]float64{}
	for m := range ch {
		d := m.Desc().String()
		i := strings.Index(d, `fqName: "`)
		if i < 0 {
			continue
		}
		name := d[i+9:]
		name = name[:strings.Index(name, `"`)]
		if !strings.HasPrefix(name, "tunnel_time") {
			continue
		}
		var pb dto.Metric
		if m.Write(&pb) != nil {
			continue
		}
		var ls []string
		for _, l := range pb.GetLabel() {
			ls = append(ls, l.GetName()+"="+l.GetValue())
		}
		if vals[name] == nil {
			vals[name] = map[string]float64{}
		}
		vals[name][strings.Join(ls, ",")] = pb.GetCounter().GetValue()
	}
	return vals, panicked
}

func runC17(rc *RunCtx) {
	G := rc.G
	db := &slowIPInfo{G: G}
	db.Answers = map[string]ipinfo.IPInfo{}
	db.Errs = map[string]bool{}
	ips := []string{"8.8.8.8", "1.2.3.4", "2606:4700::1111", "10.0.0.7", "203.0.113.9", "151.101.1.1"}
	for i, ip := range ips {
		switch G.Draw(5) {
		case 0:
			db.Errs[net.ParseIP(ip).String()] = true
		case 1: // miss: empty country
		default:
			db.Answers[net.ParseIP(ip).String()] = ipinfo.IPInfo{CountryCode: ipinfo.CountryCode(fmt.Sprintf("C%d", i%3)), ASN: ipinfo.ASN{Number: 100 + i%2, Organization: "org"}}
		}
	}
	var prom promMetrics
	if G.Draw(5) == 0 {
		prom = newPromMetricsWith(rc, nil)
	} else {
		prom = newPromMetricsWith(rc, db)
	}
	keys := []string{"key-a", "key-b", "key-c"}[:1+G.Draw(3)]
	nIP := 1 + G.Draw(len(ips))
	var ivs []*c17iv
	scrapeFailed := false
	nT := 1 + G.Draw(8)
	unit := []time.Duration{time.Millisecond, time.Second, time.Minute}[G.Draw(3)]
	for t := 0; t < nT; t++ {
		t := t
		ip := ips[G.Draw(nIP)]
		key := keys[G.Draw(len(keys))]
		udp := G.Draw(3) == 0
		unauth := !udp && G.Draw(6) == 0
		d0 := time.Duration(G.Draw(10)) * unit
		d1 := time.Duration(G.Draw(10)) * unit
		reps := 1 + G.Draw(2)
		rc.D("tunnel %d: ip=%s key=%s udp=%v unauth=%v start+%v dur=%v x%d", t, ip, key, udp, unauth, d0, d1, reps)
		simrt.GoNamed(fmt.Sprintf("tunnel-%d", t), func() {
			for r := 0; r < reps; r++ {
				simrt.Sleep(d0)
				addr := &net.TCPAddr{IP: net.ParseIP(ip), Port: 30000 + t}
				iv := &c17iv{ip: ip, key: key, e0: -1, e1: -1}
				if udp {
					iv.s0 = simrt.Elapsed()
					cm := prom.AddUDPNatEntry(&net.UDPAddr{IP: addr.IP, Port: addr.Port}, key)
					iv.s1 = simrt.Elapsed()
					ivs = append(ivs, iv)
					simrt.Sleep(d1)
					iv.e0 = simrt.Elapsed()
					cm.RemoveNatEntry()
					iv.e1 = simrt.Elapsed()
					continue
				}
				cm := prom.AddOpenTCPConnection(&fakeConn{remote: addr, local: &net.TCPAddr{IP: net.IPv4(203, 0, 113, 5), Port: 9000}})
				if !unauth {
					iv.s0 = simrt.Elapsed()
					cm.AddAuthenticated(key)
					iv.s1 = simrt.Elapsed()
					ivs = append(ivs, iv)
				}
				simrt.Sleep(d1)
				iv.e0 = simrt.Elapsed()
				status := "OK"
				if unauth {
					status = "ERR_CIPHER"
				}
				cm.AddClosed(status, metrics.ProxyMetrics{ClientProxy: 10, ProxyTarget: 5, TargetProxy: 7, ProxyClient: 20}, d1)
				iv.e1 = simrt.Elapsed()
			}
		})
	}
	type scrape struct {
		q0, q1 int // scheduler steps at start / end
		t0, t1 time.Duration
		vals   map[string]map[string]float64
	}
	var scrapes []*scrape
	nS := 1 + G.Draw(5)
	for s := 0; s < nS; s++ {
		at := time.Duration(G.Draw(25)) * unit
		simrt.GoNamed(fmt.Sprintf("scraper-%d", s), func() {
			simrt.Sleep(at)
			sc := &scrape{t0: simrt.Elapsed(), q0: simrt.Steps()}
			vals, p := collectFamilies(prom)
			sc.t1 = simrt.Elapsed()
			sc.q1 = simrt.Steps()
			if p != nil {
				scrapeFailed = true
				rc.Failf("scrape-panicked", "a metrics scrape (Collect) at %v panicked: %v", sc.t0, p)
				return
			}
			sc.vals = vals
			scrapes = append(scrapes, sc)
		})
	}
	simrt.Quiesce()
	if scrapeFailed {
		return // the collector's mutex may be left locked; nothing else can be judged
	}
	rc.Phase = "final-scrape"
	fin := &scrape{t0: simrt.Elapsed(), q0: simrt.Steps()}
	vals, p := collectFamilies(prom)
	fin.t1 = simrt.Elapsed()
	fin.q1 = simrt.Steps() + 1
	if p != nil {
		rc.Failf("scrape-panicked", "the final scrape panicked: %v", p)
		return
	}
	fin.vals = vals
	scrapes = append(scrapes, fin)
	sort.SliceStable(scrapes, func(i, j int) bool { return scrapes[i].t0 < scrapes[j].t0 })
	rc.Nontrivial = len(ivs) > 0
	const eps = 1e-6
	for si, sc := range scrapes {
		perKey := sc.vals["tunnel_time_seconds"]
		perLoc := sc.vals["tunnel_time_seconds_per_location"]
		sumKey, sumLoc := 0.0, 0.0
		for _, key := range keys {
			lo, hi := time.Duration(0), time.Duration(0)
			for _, ip := range ips {
				var ivLo, ivHi [][2]time.Duration
				for _, v := range ivs {
					if v.ip != ip || v.key != key {
						continue
					}
					endLo, endHi := v.e0, v.e1
					if v.e0 < 0 {
						endLo, endHi = sc.t1+time.Hour, sc.t1+time.Hour
					}
					ivLo = append(ivLo, [2]time.Duration{v.s1, endLo})
					ivHi = append(ivHi, [2]time.Duration{v.s0, endHi})
				}
				lo += unionLen(ivLo, sc.t0)
				hi += unionLen(ivHi, sc.t1)
			}
			got := perKey["access_key="+key]
			if got < lo.Seconds()-eps || got > hi.Seconds()+eps {
				kind := "too-much"
				if got < lo.Seconds() {
					kind = "too-little"
				}
				rc.Failf("tunnel-time-"+kind, "scrape at %v: tunnel_time_seconds{access_key=%s} = %.9f, the clients' open periods with that key add up to between %.9f and %.9f (intervals %s)", sc.t0, key, got, lo.Seconds(), hi.Seconds(), describeIvs(ivs, key))
			}
			for _, o := range scrapes[:si] {
				// only scrapes that had completed before this one started are ordered
				if o.q1 < sc.q0 {
					if before := o.vals["tunnel_time_seconds"]["access_key="+key]; got < before-eps {
						rc.Failf("tunnel-time-decreased", "tunnel_time_seconds{access_key=%s} went from %v (scrape at %v) to %v (scrape at %v)", key, before, o.t0, got, sc.t0)
					}
				}
			}
		}
		for _, v := range perKey {
			sumKey += v
		}
		for _, v := range perLoc {
			sumLoc += v
		}
		// judged on the final, quiescent scrape only: while connections start and
		// stop the two families may legitimately be collected an instant apart
		if sc == fin && math.Abs(sumKey-sumLoc) > eps {
			rc.Failf("per-location-total-differs", "scrape at %v: per-key tunnel time sums to %.9f, per-location to %.9f", sc.t0, sumKey, sumLoc)
		}
		for k := range perKey {
			known := false
			for _, key := range keys {
				if k == "access_key="+key {
					known = true
				}
			}
			if !known {
				rc.Failf("tunnel-time-unknown-key", "tunnel time reported for %q, which no authenticated tunnel used", k)
			}
		}
	}
	rc.Phase = "done"
}

func describeIvs(ivs []*c17iv, key string) string {
	var b []string
	for _, v := range ivs {
		if v.key == key {
			b = append(b, fmt.Sprintf("%s[%v..%v]", v.ip, v.s0, v.e0))
		}
	}
	return strings.Join(b, " ")
}

// c17s: tunnel time through the real service path. Connections and
// associations are real; the intervals come from the instants at which the
// service reported authentication/close (TCP) and association add/remove (UDP).
func init() {
	Register(&Scenario{Name: "c17s", Prop: "C17", MaxSteps: 300000, Tick: true, Run: runC17s})
}

func runC17s(rc *RunCtx) {
	G := rc.G
	w := simnet.NewWorld()
	prom := newPromMetricsWith(rc, nil)
	m := &RecMetrics{Inner: prom}
	// (one id per cipher and secret: a repeated handshake may be served under
	// another id that has the same key material)
	keys := uniqueCrypto(genKeys(G, 1+G.Draw(3), ""))
	natT := []time.Duration{2 * time.Second, 20 * time.Second}[G.Draw(2)]
	replayable := G.Draw(2) == 0 // the replay history is on: a repeated handshake is refused
	tsrv := startTCPServer(rc, w, tcpServerOpts{Keys: keys, Timeout: time.Second, Metrics: m, Replay: map[bool]int{false: 0, true: 100}[replayable], Debug: rc.F.Draw(3) == 1})
	var wires [][]byte           // handshakes of earlier valid connections (for replays)
	mayAuth := map[int]bool{}    // client ports of connections that present a fresh valid handshake
	wirePorts := map[int][]int{} // handshake -> client ports that presented it
	usrv := startUDPServer(rc, w, udpServerOpts{Keys: keys, Timeout: natT, Metrics: m})
	if rc.F.Draw(4) == 1 {
		w.UDPSockErr = []int{300, 700}[rc.F.Draw(2)] // outbound sockets cannot always be created (EMFILE)
	}
	tgtIP := net.IPv4(93, 184, 216, 34).To4()
	startTarget(w, tgtIP, 7000, func(tc *targetConn) {
		readAll(tc.C)
		tc.C.Close()
	})
	ips := []net.IP{net.IPv4(198, 18, 60, 1).To4(), net.IPv4(198, 18, 60, 2).To4(), net.ParseIP("2001:db8:60::3")}
	nT := 1 + G.Draw(6)
	unit := []time.Duration{100 * time.Millisecond, time.Second}[G.Draw(2)]
	for t := 0; t < nT; t++ {
		t := t
		ip := ips[G.Draw(len(ips))]
		key := keys[G.Draw(len(keys))]
		udp := G.Draw(3) == 0
		probe := !udp && G.Draw(6) == 0
		d0 := time.Duration(G.Draw(8)) * unit
		d1 := time.Duration(G.Draw(8)) * unit
		// an authenticated connection whose request cannot be served: however it
		// ends, its tunnel ends with it
		oddTarget := 0
		if G.Draw(4) == 0 {
			oddTarget = 1 + G.Draw(4)
		}
		rc.D("tunnel %d: %v key=%s udp=%v probe=%v start+%v dur=%v", t, ip, key.ID, udp, probe, d0, d1)
		simrt.GoNamed(fmt.Sprintf("c17s-tunnel-%d", t), func() {
			simrt.Sleep(d0)
			if udp {
				us, err := w.BindUDP(&net.UDPAddr{IP: ip, Port: 41000 + t})
				if err != nil {
					return
				}
				plain := append(socksAddr(fmt.Sprintf("%s:7001", tgtIP)), []byte("x")...)
				n := 1 + int(d1/natT)
				for k := 0; k < n; k++ {
					us.WriteToUDP(packUDP(key, plain), &net.UDPAddr{IP: proxyIP, Port: 9000})
					simrt.Sleep(natT / 2)
				}
				us.Close()
				return
			}
			cc, err := tsrv.connect(ip, 42000+t)
			if err != nil {
				return
			}
			switch {
			case probe && len(wires) > 0 && replayable:
				// a replayed handshake: refused, held open like a probe, and no tunnel
				wi := len(wires) - 1
				cc.Write(wires[wi])
				// whichever copy the server sees first is the one it may serve
				mayAuth[42000+t] = true
				wirePorts[wi] = append(wirePorts[wi], 42000+t)
				simrt.Probe("replayed_handshake_held_open")
			case probe:
				cc.Write(payload(G, 70))
			default:
				enc := newEncoder(key)
				addr := socksAddr(fmt.Sprintf("%s:7000", tgtIP))
				switch oddTarget {
				case 1: // a domain name of length zero
					addr = []byte{3, 0, 0, 80}
				case 2: // an address the default policy refuses
					addr = socksAddr("10.1.2.3:80")
				case 3: // an address type that does not exist
					addr = []byte{9, 1, 2, 3, 4, 0, 80}
				case 4: // nobody listens there
					addr = socksAddr(fmt.Sprintf("%s:7999", tgtIP))
				}
				if oddTarget > 0 {
					simrt.Probe("authenticated_connection_with_an_unusable_target")
				}
				wire := enc.Chunk(addr)
				mayAuth[42000+t] = true
				cc.Write(wire)
				wires = append(wires, wire)
				wirePorts[len(wires)-1] = append(wirePorts[len(wires)-1], 42000+t)
			}
			simrt.Sleep(d1)
			cc.CloseWrite()
			readAll(cc)
			cc.Close()
		})
	}
	type scrape struct {
		q0, q1 int
		t0, t1 time.Duration
		vals   map[string]map[string]float64
	}
	var scrapes []*scrape
	failed := false
	doScrape := func() {
		sc := &scrape{t0: simrt.Elapsed(), q0: simrt.Steps()}
		vals, p := collectFamilies(prom)
		sc.t1, sc.q1 = simrt.Elapsed(), simrt.Steps()
		if p != nil {
			failed = true
			rc.Failf("scrape-panicked", "a metrics scrape at %v panicked: %v", sc.t0, p)
			return
		}
		sc.vals = vals
		scrapes = append(scrapes, sc)
	}
	nS := 1 + G.Draw(4)
	for s := 0; s < nS; s++ {
		at := time.Duration(G.Draw(20)) * unit
		simrt.GoNamed(fmt.Sprintf("c17s-scraper-%d", s), func() { simrt.Sleep(at); doScrape() })
	}
	// In a quarter of the runs the packet listener is closed while associations
	// may be alive (a reload that drops the address): they end there, and so do
	// their tunnels.
	if G.Draw(4) == 0 {
		at := time.Duration(1+G.Draw(12)) * unit
		simrt.GoNamed("c17s-udp-listener-close", func() {
			simrt.Sleep(at)
			usrv.Stop()
			simrt.Probe("packet_listener_closed_with_live_associations")
		})
	}
	simrt.Quiesce()
	if failed {
		return
	}
	doScrape()
	if failed {
		return
	}
	// Everything is idle: no connection, no association (every timeout has passed).
	// Whoever has neither accrues no tunnel time: a later scrape shows no growth.
	if len(w.OpenUDP(true)) <= 1 { // (the listening socket)
		simrt.Sleep(10 * time.Second)
		before := scrapes[len(scrapes)-1]
		doScrape()
		if failed {
			return
		}
		after := scrapes[len(scrapes)-1]
		for fam, m0 := range before.vals {
			for k, v1 := range after.vals[fam] {
				if v1 > m0[k]+1e-6 {
					rc.Failf("tunnel-time-grows-while-idle", "%s{%s} grew from %v to %v between two scrapes 10 s apart although no connection and no association was open any more", fam, k, m0[k], v1)
				}
			}
		}
		for fam, m1 := range after.vals {
			if _, ok := before.vals[fam]; !ok && len(m1) > 0 {
				rc.Failf("tunnel-time-grows-while-idle", "%s appeared between two scrapes of an idle server", fam)
			}
		}
		scrapes = scrapes[:len(scrapes)-1] // the interval model below is not asked about it
		simrt.Probe("idle_scrape_pair")
	}
	// one handshake, at most one tunnel (replay history on)
	authed := map[int]bool{}
	for _, r := range m.TCP {
		if r.Server == nil || r.first("auth") == nil {
			continue
		}
		if ta, ok := r.Server.RemoteAddr().(*net.TCPAddr); ok {
			authed[ta.Port] = true
		}
	}
	for wi, ports := range wirePorts {
		n := 0
		for _, p := range ports {
			if authed[p] {
				n++
			}
		}
		if replayable && n > 1 {
			rc.Failf("tunnel-for-unauthenticated-connection", "handshake %d was presented by %d connections and %d of them were reported authenticated (replay history on): a refused replay contributes tunnel time", wi, len(ports), n)
		}
	}
	// intervals as the service reported them
	var ivs []*c17iv
	for _, r := range m.TCP {
		a := r.first("auth")
		if a == nil {
			continue
		}
		if r.Server == nil {
			continue
		}
		if ta, ok := r.Server.RemoteAddr().(*net.TCPAddr); ok && !mayAuth[ta.Port] {
			// "unauthenticated connections contribute nothing": probes and replayed
			// handshakes never start a tunnel
			rc.Failf("tunnel-for-unauthenticated-connection", "a connection that presented no fresh valid handshake (client %v: a probe or a replay) was reported authenticated as %q: it contributes tunnel time", ta, a.Key)
			continue
		}
		host, _, _ := net.SplitHostPort(r.Server.RemoteAddr().String())
		iv := &c17iv{ip: host, key: a.Key, s0: a.At, s1: a.At2, e0: -1, e1: -1}
		if c := r.first("closed"); c != nil {
			iv.e0, iv.e1 = c.At, c.At2
		}
		ivs = append(ivs, iv)
	}
	for _, r := range m.UDP {
		host, _, _ := net.SplitHostPort(r.Client)
		iv := &c17iv{ip: host, key: r.Key, s0: r.At, s1: r.At2, e0: -1, e1: -1}
		if r.RemAt >= 0 {
			iv.e0, iv.e1 = r.RemAt, r.RemAt2
		}
		ivs = append(ivs, iv)
	}
	rc.Nontrivial = len(ivs) > 0
	const eps = 1e-6
	ids := map[string]bool{}
	for _, k := range keys {
		ids[k.ID] = true
	}
	for _, sc := range scrapes {
		perKey := sc.vals["tunnel_time_seconds"]
		for id := range ids {
			lo, hi := time.Duration(0), time.Duration(0)
			hosts := map[string]bool{}
			for _, v := range ivs {
				hosts[v.ip] = true
			}
			for h := range hosts {
				var ivLo, ivHi [][2]time.Duration
				for _, v := range ivs {
					if v.ip != h || v.key != id {
						continue
					}
					endLo, endHi := v.e0, v.e1
					if v.e0 < 0 {
						endLo, endHi = sc.t1+time.Hour, sc.t1+time.Hour
					}
					ivLo = append(ivLo, [2]time.Duration{v.s1, endLo})
					ivHi = append(ivHi, [2]time.Duration{v.s0, endHi})
				}
				lo += unionLen(ivLo, sc.t0)
				hi += unionLen(ivHi, sc.t1)
			}
			got := perKey["access_key="+id]
			if got < lo.Seconds()-eps || got > hi.Seconds()+eps {
				kind := "too-much"
				if got < lo.Seconds() {
					kind = "too-little"
				}
				rc.Failf("service-tunnel-time-"+kind, "scrape at %v: tunnel_time_seconds{access_key=%s} = %.9f, the tunnels the service reported add up to between %.9f and %.9f (%s)", sc.t0, id, got, lo.Seconds(), hi.Seconds(), describeIvs(ivs, id))
			}
		}
		for k := range perKey {
			if !ids[strings.TrimPrefix(k, "access_key=")] {
				rc.Failf("tunnel-time-unknown-key", "tunnel time reported for %q", k)
			}
		}
	}
	tsrv.Stop()
	usrv.Stop()
	simrt.Quiesce()
}
