package verifharness

import (
	"bytes"
	"fmt"
	"net"
	"time"

	"github.com/Jigsaw-Code/outline-sdk/transport/shadowsocks"
	"github.com/Jigsaw-Code/outline-ss-server/verifrt/simnet"
	"github.com/Jigsaw-Code/outline-ss-server/verifrt/simrt"
	"github.com/shadowsocks/go-shadowsocks2/socks"
)

// c16x: the exported UDP counters under association churn. The NAT timeout is
// short (1-2 s) and some destinations are host names whose lookup takes longer
// than that, so datagrams are reported for associations that have meanwhile
// expired, been removed and been replaced; targets answer late as well. The
// oracle is conservation only: what the collector exports equals, per key and
// direction, the sum of the datagrams that were reported to it (what a report
// must say is c16's matter), and entries added/removed equal the associations
// reported.
func init() {
	Register(&Scenario{Name: "c16x", Prop: "C16", MaxSteps: 200000, Run: runC16x, Post: postC16})
}

func runC16x(rc *RunCtx) {
	G := rc.G
	w := simnet.NewWorld()
	prom := newPromMetricsWith(rc, nil)
	m := &RecMetrics{Inner: prom}
	keys := genKeys(G, 1+G.Draw(3), "")
	T := []time.Duration{time.Second, 2 * time.Second}[G.Draw(2)]
	srv := startUDPServer(rc, w, udpServerOpts{Keys: keys, Timeout: T, Metrics: m})
	// targets: two by address, two by (slow) name
	tgtIPs := []net.IP{net.IPv4(93, 184, 216, 40).To4(), net.IPv4(93, 184, 216, 41).To4()}
	hosts := []string{"slow0.example.org", "slow1.example.org"}
	delays := map[string]time.Duration{}
	for i, h := range hosts {
		w.Script(h, []net.IP{tgtIPs[i]})
		delays[h] = []time.Duration{T / 2, T + T/10, 2 * T, 3 * T}[G.Draw(4)]
	}
	w.LookupDelay = func(host string) time.Duration { return delays[host] }
	for i, ip := range tgtIPs {
		ip := ip
		mode := G.Draw(3) // 0 silent, 1 answers at once, 2 answers late
		late := time.Duration(1+G.Draw(30)) * T / 10
		ts, err := w.BindUDP(&net.UDPAddr{IP: ip, Port: 5300})
		if err != nil {
			panic(err)
		}
		ts.Foreign = true
		simrt.GoDaemon(fmt.Sprintf("c16x-target-%d", i), func() {
			buf := make([]byte, 4096)
			for {
				n, from, err := ts.ReadFromUDP(buf)
				if err != nil {
					return
				}
				if mode == 0 {
					continue
				}
				reply := append([]byte("re:"), buf[:n]...)
				if mode == 2 {
					simrt.Sleep(late)
				}
				ts.WriteToUDP(reply, from)
			}
		})
		defer ts.Close()
	}
	nC := 1 + G.Draw(3)
	var done []*flag
	total := 0
	for c := 0; c < nC; c++ {
		c := c
		key := keys[G.Draw(len(keys))]
		ca := &net.UDPAddr{IP: net.IPv4(198, 18, 16, byte(1+c)).To4(), Port: 41000 + c}
		sock, err := w.BindUDP(ca)
		if err != nil {
			panic(err)
		}
		sock.Foreign = true
		type shot struct {
			gap  time.Duration
			dest string
			body []byte
		}
		var shots []shot
		for k, n := 0, 2+G.Draw(5); k < n; k++ {
			dest := fmt.Sprintf("%s:5300", tgtIPs[G.Draw(2)])
			if G.Draw(2) == 0 {
				dest = hosts[G.Draw(2)] + ":5300"
			}
			// bodies carry the client's number and have a different length for every
			// shot of a client: reports (which carry sizes) and forwards (which carry
			// the body) can be matched to the shot without relying on any order
			body := append([]byte(fmt.Sprintf("c%d|", c)), payload(G, 8+k*40+G.Draw(40))...)
			shots = append(shots, shot{time.Duration(G.Draw(14)) * T / 10, dest, body})
		}
		total += len(shots)
		f := &flag{}
		done = append(done, f)
		simrt.GoNamed(fmt.Sprintf("c16x-client-%d", c), func() {
			for _, s := range shots {
				simrt.Sleep(s.gap)
				plain := append(socksAddr(s.dest), s.body...)
				sock.WriteToUDP(packUDP(key, plain), &net.UDPAddr{IP: proxyIP, Port: 9000})
			}
			f.Set()
		})
		// the client's socket stays open to the end and drains what comes back
		simrt.GoDaemon(fmt.Sprintf("c16x-client-drain-%d", c), func() {
			buf := make([]byte, 4096)
			for {
				if _, _, err := sock.ReadFromUDP(buf); err != nil {
					return
				}
			}
		})
		defer sock.Close()
	}
	for _, f := range done {
		f.Wait()
	}
	// every lookup, late answer and timeout has passed
	simrt.Sleep(8 * T)
	srv.Stop()
	simrt.Quiesce()
	late := 0
	for _, rec := range m.UDP {
		removed := false
		for _, cl := range rec.Calls { // in call order
			if cl.Kind == "remove" {
				removed = true
			} else if removed {
				late++
			}
		}
	}
	if late > 0 {
		simrt.Probe("datagram_reported_after_its_association_was_removed")
	}
	// "every client datagram that creates or arrives on an association": a
	// datagram that the client sent only after the association's outbound socket
	// had been closed (strictly later on the clock) did not arrive on that
	// association. (Not "after the removal was reported": the repository reports
	// the removal a moment before it takes the entry out of its table, and a
	// datagram slipping in between is legitimately handled by the dying entry.)
	// Matching is by ledger facts: a client's sockets are those that forwarded a
	// body with its tag; its associations and its sockets correspond in order of
	// creation (per client: two associations of one client never coexist); a report
	// belongs to the client's datagram of that wire size. Anything ambiguous is
	// left unjudged.
	socksOf := map[string][]*simnet.UDPConn{} // client tag -> its outbound sockets, in creation order
	for _, sk := range w.Socks {
		if sk.Foreign || sk == srv.Sock {
			continue
		}
		tag := ""
		for _, d := range w.Dgrams {
			if d.FromSock == sk {
				if k := bytes.IndexByte(d.Payload, '|'); k > 0 && d.Payload[0] == 'c' {
					tag = string(d.Payload[:k+1])
				}
				break
			}
		}
		if tag != "" {
			socksOf[tag] = append(socksOf[tag], sk)
		}
	}
	tagOf := map[string]string{} // client address -> tag
	sentAt := map[string]map[int]time.Duration{}
	dupSize := map[string]map[int]bool{}
	for _, d := range srv.Sock.ReadLog {
		from := d.From.String()
		pl, err := shadowsocksUnpackAny(keys, d.Payload)
		if err != nil {
			continue
		}
		if a := socks.SplitAddr(pl); a != nil {
			body := pl[len(a):]
			if k := bytes.IndexByte(body, '|'); k > 0 && body[0] == 'c' {
				tagOf[from] = string(body[:k+1])
			}
		}
		if sentAt[from] == nil {
			sentAt[from], dupSize[from] = map[int]time.Duration{}, map[int]bool{}
		}
		if _, seen := sentAt[from][len(d.Payload)]; seen {
			dupSize[from][len(d.Payload)] = true
		}
		sentAt[from][len(d.Payload)] = d.At
	}
	nthRec := map[string]int{}
	perClient := map[string]int{}
	for _, rec := range m.UDP {
		perClient[rec.Client]++
	}
	for _, rec := range m.UDP {
		i := nthRec[rec.Client]
		nthRec[rec.Client]++
		sks := socksOf[tagOf[rec.Client]]
		if len(sks) != perClient[rec.Client] {
			continue // (an association whose forwards all failed has no tagged socket)
		}
		sk := sks[i]
		for _, cl := range rec.Calls {
			if cl.Kind != "fromclient" {
				continue
			}
			at, ok := sentAt[rec.Client][int(cl.A)]
			if !ok || dupSize[rec.Client][int(cl.A)] {
				continue
			}
			if sk.IsClosed() && at > sk.ClosedAt {
				rc.Failf("datagram-reported-on-dead-association", "client %s: its %d-byte datagram was sent at %v, after the outbound socket of its association (key %s) had been closed at %v, and was reported on that association (status %s) instead of creating a new one", rec.Client, cl.A, at, rec.Key, sk.ClosedAt, cl.Status)
			}
		}
	}
	rc.Nontrivial = len(m.UDP) > 0
	rc.State(fmt.Sprintf("assocs=%d late=%v", len(m.UDP), late > 0))
	rc.D("T=%v clients=%d datagrams=%d associations=%d reported-after-removal=%d", T, nC, total, len(m.UDP), late)
	rc.PostData = m
	rc.Phase = "done"
}

// shadowsocksUnpackAny decrypts a datagram under whichever key of the list opens it.
func shadowsocksUnpackAny(keys []*Key, wire []byte) ([]byte, error) {
	var err error
	for _, k := range keys {
		var pl []byte
		if pl, err = shadowsocks.Unpack(nil, wire, k.EK); err == nil {
			return pl, nil
		}
	}
	return nil, err
}
