package verifharness

import (
	"bytes"
	"fmt"
	"net"
	"time"

	"github.com/Jigsaw-Code/outline-sdk/transport/shadowsocks"
	"github.com/Jigsaw-Code/outline-ss-server/verifrt/simnet"
	"github.com/Jigsaw-Code/outline-ss-server/verifrt/simrt"
)

// C11 — reload never interrupts service on retained listeners.
func init() {
	Register(&Scenario{Name: "c11", Prop: "C11", MaxSteps: 1000000, Run: runC11, PanicIsViolation: true, LivelockIsViolation: true})
}

func runC11(rc *RunCtx) {
	G := rc.G
	both := genKeys(G, 1+G.Draw(3), "both-")   // present in every configuration
	extra := genKeys(G, 2+G.Draw(3), "extra-") // come and go
	// retained listeners
	var retT, retU []string
	nRT := 1 + G.Draw(2)
	for i := 0; i < nRT; i++ {
		retT = append(retT, fmt.Sprintf(mainAddrs[G.Draw(2)], 9000+i))
	}
	nRU := G.Draw(2)
	for i := 0; i < nRU; i++ {
		retU = append(retU, fmt.Sprintf(mainAddrs[G.Draw(2)], 9050+i))
	}
	// In a quarter of the runs the retained addresses are those of the legacy
	// key-per-port format instead (one or two ports, TCP and UDP each).
	legacyPorts := 0
	if G.Draw(4) == 0 {
		legacyPorts = 1 + G.Draw(2)
		retT, retU = nil, nil
		for i := 0; i < legacyPorts; i++ {
			retT = append(retT, fmt.Sprintf(":%d", 9100+i))
			retU = append(retU, fmt.Sprintf(":%d", 9100+i))
		}
		simrt.Probe("retained_addresses_in_the_legacy_format")
	}
	mkCfg := func(v int) *mCfg {
		c := &mCfg{}
		if legacyPorts > 0 {
			for i := 0; i < legacyPorts; i++ {
				for _, k := range both {
					c.Legacy = append(c.Legacy, mLegacy{9100 + i, k})
				}
				for _, k := range extra {
					if G.Draw(2) == 0 {
						c.Legacy = append(c.Legacy, mLegacy{9100 + i, k})
					}
				}
			}
			if G.Draw(2) == 0 {
				c.Services = append(c.Services, mSvc{Listeners: []mLn{{"tcp", fmt.Sprintf("127.0.0.1:%d", 9200+v)}, {"udp", fmt.Sprintf("127.0.0.1:%d", 9200+v)}}, Keys: append([]*Key(nil), extra[:1+G.Draw(len(extra))]...)})
			}
			return c
		}
		// the retained listeners may move between services from version to version,
		// but always keep the common keys
		var sv mSvc
		for _, a := range retT {
			sv.Listeners = append(sv.Listeners, mLn{"tcp", a})
		}
		for _, a := range retU {
			sv.Listeners = append(sv.Listeners, mLn{"udp", a})
		}
		sv.Keys = append(sv.Keys, both...)
		for _, k := range extra {
			if G.Draw(2) == 0 {
				sv.Keys = append(sv.Keys, k)
			}
		}
		// random key order
		for i := len(sv.Keys) - 1; i > 0; i-- {
			j := G.Draw(i + 1)
			sv.Keys[i], sv.Keys[j] = sv.Keys[j], sv.Keys[i]
		}
		c.Services = append(c.Services, sv)
		// version-specific extra service on its own ports
		if G.Draw(2) == 0 {
			c.Services = append(c.Services, mSvc{Listeners: []mLn{{"tcp", fmt.Sprintf("127.0.0.1:%d", 9200+v)}, {"udp", fmt.Sprintf("127.0.0.1:%d", 9200+v)}}, Keys: append([]*Key(nil), extra[:1+G.Draw(len(extra))]...)})
		}
		return c
	}
	nVer := 2 + G.Draw(3)
	viaSignal := G.Draw(3) == 0 // reload through the SIGHUP loop instead of calling loadConfig directly
	cfgs := make([]*mCfg, nVer)
	for v := range cfgs {
		cfgs[v] = mkCfg(v)
		rc.D("version %d: %s", v, describeCfg(cfgs[v]))
	}
	ms, err := newMainSim(rc, 0, cfgs[0])
	if err != nil {
		rc.Failf("valid-config-rejected", "initial configuration failed to load: %v", err)
		return
	}
	w := ms.W
	tgtIP := net.IPv4(93, 184, 216, 34).To4()
	// echo targets
	echoTarget := func(tc *targetConn) {
		buf := make([]byte, 8192)
		for {
			n, err := tc.C.Read(buf)
			if n > 0 {
				tc.C.Write(buf[:n])
			}
			if err != nil {
				break
			}
		}
		tc.C.Close()
	}
	startTarget(w, tgtIP, 7000, echoTarget)
	utgt, _ := w.BindUDP(&net.UDPAddr{IP: tgtIP, Port: 7001})
	simrt.GoDaemon("c11-udp-target", func() {
		buf := make([]byte, 2048)
		for {
			n, from, err := utgt.ReadFromUDP(buf)
			if err != nil {
				return
			}
			utgt.WriteToUDP(buf[:n], from)
		}
	})
	reloadsDone := false
	var reloadErr error
	dripSent := map[int][]byte{} // relay index -> bytes its drip target sent
	for i := 0; i < 4; i++ {
		i := i
		startTarget(w, tgtIP, 7100+i, func(tc *targetConn) {
			// the client half-closes at once; the target keeps sending across the reloads
			readAll(tc.C)
			for !reloadsDone {
				m := payload(G, 1+G.Draw(800))
				dripSent[i] = append(dripSent[i], m...)
				if _, err := tc.C.Write(m); err != nil {
					return
				}
				simrt.Sleep(time.Duration(1+G.Draw(3)) * time.Millisecond)
			}
			m := payload(G, 1+G.Draw(300))
			dripSent[i] = append(dripSent[i], m...)
			tc.C.Write(m)
			tc.C.Close()
		})
	}
	// ---- long-lived relays opened before the first reload ----
	type relay struct {
		kind        int // 0 idle across the reloads, 1 mid-transfer, 2 client half-closed while the target still sends
		c           *simnet.TCPConn
		key         *Key
		sent        []byte
		got         []byte
		err         error
		done        bool
		closedEarly bool
		established bool
	}
	var relays []*relay
	nRel := G.Draw(4)
	for i := 0; i < nRel; i++ {
		r := &relay{kind: G.Draw(3), key: both[G.Draw(len(both))]}
		relays = append(relays, r)
		addr := retT[G.Draw(len(retT))]
		i := i
		simrt.GoNamed(fmt.Sprintf("c11-relay-%d", i), func() {
			ip, port := dialIP(addr)
			cc, err := w.Connect(&net.TCPAddr{IP: net.IPv4(198, 18, 30, byte(i+1)).To4(), Port: 33000 + i}, ip, port)
			if err != nil {
				r.err = err
				r.done = true
				return
			}
			r.c = cc
			enc := newEncoder(r.key)
			if r.kind == 2 {
				enc.Lazy(socksAddr(fmt.Sprintf("%s:%d", tgtIP, 7100+i)))
			} else {
				enc.Lazy(socksAddr(fmt.Sprintf("%s:7000", tgtIP)))
			}
			first := payload(G, 1+G.Draw(500))
			r.sent = append(r.sent, first...)
			cc.Write(enc.Chunk(first))
			if r.kind == 2 {
				cc.CloseWrite() // half-closed: only the target's direction keeps flowing
			}
			var rdone flag
			simrt.GoNamed("c11-relay-reader", func() {
				rd := shadowsocks.NewReader(cc, r.key.EK)
				buf := make([]byte, 4096)
				for {
					n, err := rd.Read(buf)
					r.got = append(r.got, buf[:n]...)
					if len(r.got) >= len(first) || (r.kind == 2 && len(r.got) > 0) {
						r.established = true // data from the target came back: the connection is relaying
					}
					if err != nil {
						if err.Error() != "EOF" {
							r.err = err
						}
						break
					}
				}
				rdone.Set()
			})
			// keep going across the reloads
			for !reloadsDone {
				if r.kind == 1 {
					m := payload(G, 1+G.Draw(2000))
					r.sent = append(r.sent, m...)
					if _, err := cc.Write(enc.Chunk(m)); err != nil {
						r.err = err
						break
					}
				}
				simrt.Sleep(time.Duration(1+G.Draw(3)) * time.Millisecond)
				if rdone.set {
					// kinds 0/1: only the client ends the exchange, so an early end of stream is
					// the server's doing; kind 2 is ended by its target and judged by byte equality
					r.closedEarly = r.kind != 2
					break
				}
			}
			if r.kind != 2 {
				last := payload(G, 1+G.Draw(500))
				r.sent = append(r.sent, last...)
				cc.Write(enc.Chunk(last))
				cc.CloseWrite()
			}
			rdone.Wait()
			if r.kind == 2 {
				r.sent = dripSent[i] // what the client must have received is what the target sent
			}
			cc.Close()
			r.done = true
		})
	}
	// ---- short client connections and datagrams racing with the reload steps ----
	type shot struct {
		tcp     bool
		addr    string
		key     *Key
		refused error
		c       *simnet.TCPConn
		echo    []byte
		msg     []byte
		done    bool
		rec     *simnet.DgramRec
		id      string
		late    bool // fired around the closing reload, with a key of the last two configurations only
	}
	var shots []*shot
	nShots := 2 + G.Draw(10)
	launch := func(key *Key, late bool) {
		i := len(shots)
		s := &shot{tcp: len(retU) == 0 || G.Draw(3) != 0, key: key, late: late, msg: []byte(fmt.Sprintf("shot-%d|%x", i, payload(G, 8)))}
		s.id = fmt.Sprintf("shot-%d", i)
		if s.tcp {
			s.addr = retT[G.Draw(len(retT))]
		} else {
			s.addr = retU[G.Draw(len(retU))]
		}
		shots = append(shots, s)
		if s.tcp {
			startTarget(w, tgtIP, 7200+i, echoTarget)
		}
		j := jitter(G)
		delay := time.Duration(G.Draw(6)) * time.Millisecond
		simrt.GoNamed(fmt.Sprintf("c11-shot-%d", i), func() {
			simrt.Sleep(delay)
			j()
			ip, port := dialIP(s.addr)
			if s.tcp {
				cc, err := w.Connect(&net.TCPAddr{IP: net.IPv4(198, 18, 31, byte(i+1)).To4(), Port: 34000 + i}, ip, port)
				if err != nil {
					s.refused = err
					s.done = true
					return
				}
				s.c = cc
				enc := newEncoder(s.key)
				enc.Lazy(socksAddr(fmt.Sprintf("%s:%d", tgtIP, 7200+i)))
				cc.Write(enc.Chunk(s.msg))
				rd := shadowsocks.NewReader(cc, s.key.EK)
				buf := make([]byte, len(s.msg))
				n := 0
				for n < len(buf) {
					m, err := rd.Read(buf[n:])
					n += m
					if err != nil {
						break
					}
				}
				s.echo = buf[:n]
				cc.CloseWrite()
				readAll(cc)
				cc.Close()
			} else {
				sock, err := w.BindUDP(&net.UDPAddr{IP: net.IPv4(198, 18, 32, byte(i+1)).To4(), Port: 35000 + i})
				if err != nil {
					panic(err)
				}
				plain := append(socksAddr(fmt.Sprintf("%s:7001", tgtIP)), s.msg...)
				sock.WriteToUDP(packUDP(s.key, plain), &net.UDPAddr{IP: ip, Port: port})
				s.rec = sock.LastSent
				sock.SetReadDeadline(simrt.NowNoTick().Add(50 * time.Millisecond))
				buf := make([]byte, 2048)
				n, _, err := sock.ReadFromUDP(buf)
				if err == nil {
					if pl, err := shadowsocks.Unpack(nil, buf[:n], s.key.EK); err == nil && len(pl) > 7 {
						s.echo = pl[7:]
					}
				}
				sock.Close()
			}
			s.done = true
		})
	}
	for i := 0; i < nShots; i++ {
		launch(both[G.Draw(len(both))], false)
	}
	// Strays: connections to the version-specific listeners, which come and go
	// with the reloads. Nothing is claimed about them (their address is not in
	// both configurations); but whatever the server does with them happens inside
	// the process that also serves the retained addresses.
	for i, n := 0, G.Draw(4); i < n; i++ {
		i := i
		port := 9200 + G.Draw(nVer)
		delay := time.Duration(G.Draw(10)) * time.Millisecond
		j := jitter(G)
		k := extra[0]
		simrt.GoDaemon(fmt.Sprintf("c11-stray-%d", i), func() {
			simrt.Sleep(delay)
			j()
			cc, err := w.Connect(&net.TCPAddr{IP: net.IPv4(198, 18, 33, byte(i+1)).To4(), Port: 36000 + i}, net.IPv4(127, 0, 0, 1).To4(), port)
			if err != nil {
				return
			}
			simrt.Probe("stray_connection_to_a_listener_that_comes_and_goes")
			enc := newEncoder(k)
			cc.Write(enc.Chunk(socksAddr(fmt.Sprintf("%s:7000", tgtIP))))
			cc.CloseWrite()
			readAll(cc)
			cc.Close()
		})
	}
	// ---- the reloads ----
	simrt.GoNamed("c11-reloader", func() {
		// the long-lived connections must be relaying before the first reload
		for tries := 0; tries < 1000; tries++ {
			all := true
			for _, r := range relays {
				if !r.established && !r.done {
					all = false
				}
			}
			if all {
				break
			}
			simrt.Sleep(time.Millisecond)
		}
		for v := 1; v < nVer; v++ {
			simrt.Sleep(time.Duration(G.Draw(4)) * time.Millisecond)
			for y := G.Draw(6); y > 0; y-- {
				simrt.Yield()
			}
			if !viaSignal && G.Draw(4) == 0 {
				// A doomed attempt first: the new configuration also wants an address that
				// another process holds. It must fail and leave the retained listeners
				// bound and serving all the way through (the clients keep coming).
				doomed := *cfgs[v]
				doomed.Services = append(append([]mSvc(nil), cfgs[v].Services...), mSvc{Listeners: []mLn{{"tcp", "127.0.0.1:9777"}}, Keys: both})
				if fl, err := simnet.ListenTCP("tcp", &net.TCPAddr{IP: net.IPv4(127, 0, 0, 1).To4(), Port: 9777}); err == nil {
					fl.Foreign = true
					// (whether it must fail is C10's claim, not C11's)
					if err := ms.reload(&doomed, false); err == nil {
						rc.Probe("doomed_reload_reported_success")
					}
					fl.Close()
					rc.Probe("failed_reload_between_generations")
					simrt.Sleep(time.Duration(G.Draw(3)) * time.Millisecond)
				}
			}
			if viaSignal {
				reads := ms.OS.Reads
				ms.reload(cfgs[v], true)
				for tries := 0; ms.OS.Reads == reads && tries < 100; tries++ {
					simrt.Sleep(time.Millisecond)
				}
				simrt.Sleep(2 * time.Millisecond)
			} else if err := ms.reload(cfgs[v], false); err != nil {
				reloadErr = err
				break
			}
		}
		// A closing reload to the same configuration (half of the runs), with clients
		// that use a key which the last configuration has but an earlier one lacked:
		// it is "present in both configurations" of this reload, so it authenticates
		// throughout, whichever generation takes the connection (all the earlier
		// ones are long stopped).
		if reloadErr == nil && legacyPorts == 0 && G.Draw(2) == 0 {
			last := cfgs[nVer-1]
			var cand []*Key
			for _, k := range last.Services[0].Keys {
				isBoth := false
				for _, b := range both {
					isBoth = isBoth || b == k
				}
				if !isBoth && !cryptoDup(last.Services[0].Keys, k) {
					cand = append(cand, k)
				}
			}
			if len(cand) > 0 {
				k := cand[G.Draw(len(cand))]
				for n := 2 + G.Draw(5); n > 0; n-- {
					launch(k, true)
				}
				simrt.Probe("closing_reload_with_recent_key")
				if viaSignal {
					reads := ms.OS.Reads
					ms.reload(last, true)
					for tries := 0; ms.OS.Reads == reads && tries < 100; tries++ {
						simrt.Sleep(time.Millisecond)
					}
				} else if err := ms.reload(last, false); err != nil {
					reloadErr = err
				}
				simrt.Sleep(8 * time.Millisecond) // the late clients start within 6 ms
			}
		}
		simrt.Sleep(2 * time.Millisecond)
		reloadsDone = true
	})
	simrt.Quiesce()
	rc.Phase = "check"
	if reloadErr != nil {
		rc.Failf("valid-reload-failed", "a valid configuration that retains listeners failed to load: %v", reloadErr)
		return
	}
	if !reloadsDone {
		rc.Failf("reload-stalled", "a reload never returned%s", describeTasks(simrt.Snapshot()))
		return
	}
	rc.Nontrivial = true
	for i, s := range shots {
		if !s.done {
			rc.Failf("client-stalled", "client %d (%s %s) never finished%s", i, map[bool]string{true: "tcp", false: "udp"}[s.tcp], s.addr, describeTasks(simrt.Snapshot()))
			continue
		}
		if s.tcp {
			if s.refused != nil {
				rc.Failf("retained-listener-refused-connection", "connection attempt %d to retained address %s during a reload was refused: %v", i, s.addr, s.refused)
				continue
			}
			if _, rst := s.c.Has("rst-recv"); rst {
				rc.Failf("retained-listener-reset-connection", "connection %d to retained address %s was reset", i, s.addr)
			}
			recs := ms.M.tcpFor(s.c.Rec.ID)
			if len(recs) != 1 || recs[0].count("closed") != 1 {
				n := 0
				if len(recs) > 0 {
					n = recs[0].count("closed")
				}
				rc.Failf("not-handled-exactly-once", "connection %d to retained address %s: %d open reports, %d close reports (handled by no generation or by two)", i, s.addr, len(recs), n)
				continue
			}
			dialedTarget := false
			for _, d := range w.Dials {
				// "already relaying": at least one byte crossed the target connection (a
				// dial cancelled while in flight, or a connection that the stopping
				// generation dropped between the dial and the first byte, is no relay yet)
				if d.Port == 7200+i && d.Err == nil && d.Conn != nil && (len(d.Conn.Wrote) > 0 || len(d.Conn.Peer().Wrote) > 0) {
					dialedTarget = true
				}
			}
			if recs[0].first("auth") != nil && !dialedTarget {
				// accepted and authenticated by the generation that was being stopped; its
				// dial was cancelled with that generation's context before it reached the
				// network, i.e. before it was relaying
				rc.Probe("dial_cancelled_by_stopping_generation")
				continue
			}
			if recs[0].first("auth") == nil {
				rc.Failf("common-key-rejected-during-reload", "connection %d to retained address %s with key %s (present in %s) was not authenticated: status %s", i, s.addr, s.key.ID, map[bool]string{false: "every configuration", true: "both configurations of the closing reload"}[s.late], recs[0].first("closed").Status)
			} else if !bytes.Equal(s.echo, s.msg) {
				rc.Failf("echo-mismatch", "connection %d: authenticated, but echo %q != %q (status %s)", i, s.echo, s.msg, recs[0].first("closed").Status)
			}
		} else {
			if s.rec == nil || s.rec.Delivered == 0 {
				rc.Failf("retained-udp-listener-unbound", "datagram %d to retained address %s found no bound socket during a reload", i, s.addr)
				continue
			}
			n := 0
			for _, d := range w.Dgrams {
				if !d.FromSock.Foreign && d.To.Port == 7001 && bytes.Equal(d.Payload, s.msg) {
					n++
				}
			}
			if n != 1 {
				rc.Failf(fmt.Sprintf("datagram-handled-%d-times", minInt(n, 2)), "datagram %d to retained address %s (key %s, present in every configuration) was forwarded %d times", i, s.addr, s.key.ID, n)
			}
		}
	}
	for i, r := range relays {
		if !r.done {
			rc.Failf("relay-stalled", "long-lived relay %d never finished%s", i, describeTasks(simrt.Snapshot()))
			continue
		}
		if r.c == nil {
			rc.Failf("retained-listener-refused-connection", "relay %d could not connect before the first reload: %v", i, r.err)
			continue
		}
		if r.closedEarly {
			rc.Failf("relay-closed-by-reload", "long-lived relay %d (kind %d) was closed by the server while reloads were in progress (client got %d of %d bytes, err %v)", i, r.kind, len(r.got), len(r.sent), r.err)
			continue
		}
		if !bytes.Equal(r.got, r.sent) {
			rc.Failf("relay-interrupted", "long-lived relay %d (kind %d) echoed %d of %d bytes (err %v)", i, r.kind, len(r.got), len(r.sent), r.err)
		}
	}
	rc.Phase = "stop"
	ms.Srv.StopForVerif()
	utgt.Close()
	simrt.Quiesce()
	rc.Phase = "done"
}
