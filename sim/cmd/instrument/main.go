// Command instrument rewrites a scratch copy of outline-ss-server so that every
// source of nondeterminism goes through the simulator runtime (verifrt).
// It never touches /repo. See DESIGN.md §2.1 for the rules.
package main

import (
	"bytes"
	"encoding/json"
	"flag"
	"fmt"
	"go/ast"
	"go/printer"
	"go/token"
	"go/types"
	"os"
	"path/filepath"
	"sort"
	"strconv"
	"strings"

	"golang.org/x/tools/go/ast/astutil"
	"golang.org/x/tools/go/packages"
)

const modPath = "github.com/Jigsaw-Code/outline-ss-server"
const rtPath = modPath + "/verifrt"

type repl struct{ pkg, name string }

// API-level substitutions, keyed on stdlib/SDK names (not on repo identifiers).
var selectorMap = map[string]repl{
	"net.ListenTCP":      {"simnet", "ListenTCP"},
	"net.TCPListener":    {"simnet", "TCPListener"},
	"net.TCPConn":        {"simnet", "TCPConn"},
	"net.ListenPacket":   {"simnet", "ListenPacket"},
	"net.ListenUDP":      {"simnet", "ListenUDP"},
	"net.UDPConn":        {"simnet", "UDPConn"},
	"net.ResolveUDPAddr": {"simnet", "ResolveUDPAddr"},
	"net.ResolveTCPAddr": {"simnet", "ResolveTCPAddr"},
	"net.ResolveIPAddr":  {"simnet", "ResolveIPAddr"},
	"net.LookupIP":       {"simnet", "LookupIP"},
	"net.LookupHost":     {"simnet", "LookupHost"},
	"net.Listen":         {"simnet", "Listen"},
	"net.Dial":           {"simnet", "Dial"},
	"net.DialTimeout":    {"simnet", "DialTimeout"},
	"net.DialTCP":        {"simnet", "DialTCP"},
	"net.DialUDP":        {"simnet", "DialUDP"},
	"github.com/Jigsaw-Code/outline-sdk/transport.TCPDialer": {"simnet", "TCPDialer"},
	"github.com/Jigsaw-Code/outline-sdk/transport.UDPDialer": {"simnet", "UDPDialer"},
	"os.ReadFile":          {"simos", "ReadFile"},
	"os.Exit":              {"simos", "Exit"},
	"log.Fatal":            {"simos", "Fatal"},
	"log.Fatalf":           {"simos", "Fatalf"},
	"log.Fatalln":          {"simos", "Fatalln"},
	"os/signal.Notify":     {"simos", "Notify"},
	"os/signal.Stop":       {"simos", "Stop"},
	"time.Now":             {"simrt", "Now"},
	"time.Since":           {"simrt", "Since"},
	"time.Until":           {"simrt", "Until"},
	"time.Sleep":           {"simrt", "Sleep"},
	"time.After":           {"simrt", "AfterChan"},
	"time.AfterFunc":       {"simrt", "AfterFunc"},
	"time.NewTimer":        {"simrt", "NewTimer"},
	"time.Timer":           {"simrt", "Timer"},
	"time.NewTicker":       {"simrt", "NewTicker"},
	"time.Ticker":          {"simrt", "Ticker"},
	"time.Tick":            {"simrt", "Tick"},
	"context.AfterFunc":    {"simrt", "ContextAfterFunc"},
	"context.WithTimeout":  {"simrt", "WithTimeout"},
	"context.WithDeadline": {"simrt", "WithDeadline"},
	// a system call: a scheduling point, and its result lands in the caller's
	// buffer only when it returns (the bytes themselves stay really random)
	"crypto/rand.Read": {"simrt", "RandRead"},
}

// Uses that would let real sockets/timers into a run and have no mapping.
var forbidden = map[string]bool{
	"net.FileListener": true, "net.FileConn": true, "net.ListenIP": true, "net.ListenUnix": true,
	"net.DialIP": true, "net.DialUnix": true, "net.ListenMulticastUDP": true, "net.ListenConfig": true,
	"net.LookupAddr": true, "net.LookupCNAME": true, "net.Resolver": true, "net.DefaultResolver": true,
}

type site struct {
	File string `json:"file"`
	Line int    `json:"line"`
	Kind string `json:"kind"`
}

type rewriter struct {
	fset     *token.FileSet
	info     *types.Info
	file     *ast.File
	fname    string
	ctr      int
	need     map[string]bool
	sites    *[]site
	errs     []string
	warns    *[]string
	skipMain bool
}

func (r *rewriter) tmp(p string) *ast.Ident {
	r.ctr++
	return ast.NewIdent("_vs" + p + strconv.Itoa(r.ctr))
}

func (r *rewriter) site(n ast.Node, kind string) {
	p := r.fset.Position(n.Pos())
	*r.sites = append(*r.sites, site{r.fname, p.Line, kind})
}

func (r *rewriter) failf(n ast.Node, f string, a ...any) {
	p := r.fset.Position(n.Pos())
	r.errs = append(r.errs, fmt.Sprintf("%s:%d: %s", r.fname, p.Line, fmt.Sprintf(f, a...)))
}

func sel(pkg, name string) *ast.SelectorExpr {
	return &ast.SelectorExpr{X: ast.NewIdent(pkg), Sel: ast.NewIdent(name)}
}

func call(fn ast.Expr, args ...ast.Expr) *ast.CallExpr { return &ast.CallExpr{Fun: fn, Args: args} }

func (r *rewriter) rt(name string, args ...ast.Expr) *ast.CallExpr {
	r.need["simrt"] = true
	return call(sel("simrt", name), args...)
}

func define(lhs []ast.Expr, rhs ...ast.Expr) *ast.AssignStmt {
	return &ast.AssignStmt{Lhs: lhs, Tok: token.DEFINE, Rhs: rhs}
}
func assign(lhs []ast.Expr, rhs ...ast.Expr) *ast.AssignStmt {
	return &ast.AssignStmt{Lhs: lhs, Tok: token.ASSIGN, Rhs: rhs}
}
func exprs(e ...ast.Expr) []ast.Expr { return e }
func intLit(i int) *ast.BasicLit     { return &ast.BasicLit{Kind: token.INT, Value: strconv.Itoa(i)} }
func block(s ...ast.Stmt) *ast.BlockStmt {
	return &ast.BlockStmt{List: s}
}

func isRecv(e ast.Expr) (*ast.UnaryExpr, bool) {
	e = astutil.Unparen(e)
	u, ok := e.(*ast.UnaryExpr)
	if ok && u.Op == token.ARROW {
		return u, true
	}
	return nil, false
}

// ---- statement-level rewriting ----

// stmtList rewrites a list of statements.
func (r *rewriter) stmtList(list []ast.Stmt) []ast.Stmt {
	out := make([]ast.Stmt, 0, len(list))
	for _, s := range list {
		out = append(out, r.stmt(s))
	}
	return out
}

// preemptible prepends a preemption point to a loop or function body: a real
// goroutine can be descheduled anywhere, the cooperative scheduler only where
// it is asked; loop heads and function entries give it places inside
// computations (active in a drawn subset of the runs, see simrt.Preempt).
func (r *rewriter) preemptible(b *ast.BlockStmt) *ast.BlockStmt {
	if b == nil {
		return b
	}
	b.List = append([]ast.Stmt{&ast.ExprStmt{X: r.rt("Preempt")}}, b.List...)
	return b
}

// stmt rewrites one statement (recursively) and returns its replacement.
func (r *rewriter) stmt(s ast.Stmt) ast.Stmt {
	switch n := s.(type) {
	case nil:
		return nil
	case *ast.LabeledStmt:
		inner := r.stmt(n.Stmt)
		// If the inner statement was expanded to a block whose last statement is
		// the "core" loop/switch, the label must move onto that core statement.
		if b, ok := inner.(*ast.BlockStmt); ok && b.Lbrace == token.NoPos && len(b.List) > 0 {
			switch n.Stmt.(type) {
			case *ast.RangeStmt, *ast.SelectStmt:
				last := len(b.List) - 1
				b.List[last] = &ast.LabeledStmt{Label: n.Label, Stmt: b.List[last]}
				return b
			}
		}
		n.Stmt = inner
		return n
	case *ast.BlockStmt:
		n.List = r.stmtList(n.List)
		return n
	case *ast.IfStmt:
		n.Init = r.simple(n.Init)
		n.Cond = r.expr(n.Cond)
		n.Body = r.stmt(n.Body).(*ast.BlockStmt)
		if n.Else != nil {
			n.Else = r.stmt(n.Else)
		}
		return n
	case *ast.ForStmt:
		n.Init = r.simple(n.Init)
		n.Cond = r.expr(n.Cond)
		n.Post = r.simple(n.Post)
		n.Body = r.preemptible(r.stmt(n.Body).(*ast.BlockStmt))
		return n
	case *ast.RangeStmt:
		return r.rangeStmt(n)
	case *ast.SwitchStmt:
		n.Init = r.simple(n.Init)
		n.Tag = r.expr(n.Tag)
		r.clauses(n.Body)
		return n
	case *ast.TypeSwitchStmt:
		n.Init = r.simple(n.Init)
		n.Assign = r.simple(n.Assign)
		r.clauses(n.Body)
		return n
	case *ast.SelectStmt:
		return r.selectStmt(n)
	case *ast.GoStmt:
		return r.goStmt(n)
	case *ast.SendStmt:
		n.Chan = r.expr(n.Chan)
		n.Value = r.expr(n.Value)
		r.site(n, "send")
		t := r.tmp("t")
		return block(define(exprs(t), r.rt("Pre")), n, &ast.ExprStmt{X: r.rt("Post", t)})
	case *ast.ExprStmt:
		if c, ok := n.X.(*ast.CallExpr); ok {
			if id, ok := c.Fun.(*ast.Ident); ok && id.Name == "close" && r.isBuiltin(id) {
				n.X = r.expr(n.X)
				r.site(n, "close")
				return block(&ast.ExprStmt{X: r.rt("Yield")}, n)
			}
		}
		n.X = r.expr(n.X)
		return n
	case *ast.AssignStmt:
		return r.simple(n)
	case *ast.DeclStmt:
		if gd, ok := n.Decl.(*ast.GenDecl); ok {
			r.genDecl(gd)
		}
		return n
	case *ast.ReturnStmt:
		for i := range n.Results {
			n.Results[i] = r.expr(n.Results[i])
		}
		return n
	case *ast.DeferStmt:
		n.Call = r.expr(n.Call).(*ast.CallExpr)
		return n
	case *ast.IncDecStmt:
		n.X = r.expr(n.X)
		return n
	case *ast.BranchStmt, *ast.EmptyStmt:
		return n
	}
	r.failf(s, "unhandled statement type %T", s)
	return s
}

func (r *rewriter) clauses(b *ast.BlockStmt) {
	for _, c := range b.List {
		cc := c.(*ast.CaseClause)
		for i := range cc.List {
			cc.List[i] = r.expr(cc.List[i])
		}
		cc.Body = r.stmtList(cc.Body)
	}
}

// simple rewrites simple statements that stay simple statements (init/post
// clauses, assignments).
func (r *rewriter) simple(s ast.Stmt) ast.Stmt {
	switch n := s.(type) {
	case nil:
		return nil
	case *ast.AssignStmt:
		if len(n.Lhs) == 2 && len(n.Rhs) == 1 {
			if u, ok := isRecv(n.Rhs[0]); ok {
				r.site(u, "recv")
				n.Rhs[0] = r.rt("Recv2", r.expr(u.X))
				for i := range n.Lhs {
					n.Lhs[i] = r.expr(n.Lhs[i])
				}
				return n
			}
		}
		for i := range n.Lhs {
			n.Lhs[i] = r.expr(n.Lhs[i])
		}
		for i := range n.Rhs {
			n.Rhs[i] = r.expr(n.Rhs[i])
		}
		return n
	case *ast.ExprStmt:
		n.X = r.expr(n.X)
		return n
	case *ast.IncDecStmt:
		n.X = r.expr(n.X)
		return n
	case *ast.SendStmt:
		r.failf(n, "send statement in init/post position is not supported")
		return n
	}
	return r.stmt(s)
}

func (r *rewriter) genDecl(gd *ast.GenDecl) {
	for _, sp := range gd.Specs {
		vs, ok := sp.(*ast.ValueSpec)
		if !ok {
			if ts, ok := sp.(*ast.TypeSpec); ok {
				ts.Type = r.expr(ts.Type)
			}
			continue
		}
		if vs.Type != nil {
			vs.Type = r.expr(vs.Type)
		}
		if len(vs.Names) == 2 && len(vs.Values) == 1 {
			if u, ok := isRecv(vs.Values[0]); ok {
				r.site(u, "recv")
				vs.Values[0] = r.rt("Recv2", r.expr(u.X))
				continue
			}
		}
		for i := range vs.Values {
			vs.Values[i] = r.expr(vs.Values[i])
		}
	}
}

func (r *rewriter) isBuiltin(id *ast.Ident) bool {
	_, ok := r.info.Uses[id].(*types.Builtin)
	return ok
}

// ---- expressions ----

func (r *rewriter) expr(e ast.Expr) ast.Expr {
	if e == nil {
		return nil
	}
	return astutil.Apply(e, func(c *astutil.Cursor) bool {
		switch n := c.Node().(type) {
		case *ast.FuncLit:
			n.Body = r.preemptible(r.stmt(n.Body).(*ast.BlockStmt))
			if n.Type != nil {
				r.fieldTypes(n.Type)
			}
			return false
		case *ast.SelectorExpr:
			if rep := r.mapped(n); rep != nil {
				c.Replace(rep)
				return false
			}
		}
		return true
	}, func(c *astutil.Cursor) bool {
		if u, ok := c.Node().(*ast.UnaryExpr); ok && u.Op == token.ARROW {
			r.site(u, "recv")
			c.Replace(r.rt("Recv", u.X))
		}
		return true
	}).(ast.Expr)
}

func (r *rewriter) fieldTypes(ft *ast.FuncType) {
	for _, fl := range []*ast.FieldList{ft.Params, ft.Results} {
		if fl == nil {
			continue
		}
		for _, f := range fl.List {
			f.Type = r.expr(f.Type)
		}
	}
}

// mapped returns the replacement for a qualified identifier pkg.Name, if any.
func (r *rewriter) mapped(n *ast.SelectorExpr) ast.Expr {
	id, ok := n.X.(*ast.Ident)
	if !ok {
		return nil
	}
	pn, ok := r.info.Uses[id].(*types.PkgName)
	if !ok {
		return nil
	}
	key := pn.Imported().Path() + "." + n.Sel.Name
	if forbidden[key] {
		*r.warns = append(*r.warns, fmt.Sprintf("%s:%d: use of %s has no simulator mapping", r.fname, r.fset.Position(n.Pos()).Line, key))
		return nil
	}
	rep, ok := selectorMap[key]
	if !ok {
		return nil
	}
	if r.skipMain && strings.HasPrefix(key, "net/http.") {
		return nil
	}
	r.need[rep.pkg] = true
	r.site(n, "api:"+key)
	return sel(rep.pkg, rep.name)
}

// ---- go statements ----

func (r *rewriter) goStmt(n *ast.GoStmt) ast.Stmt {
	r.site(n, "go")
	c := n.Call
	if fl, ok := c.Fun.(*ast.FuncLit); ok && len(c.Args) == 0 {
		fl.Body = r.stmt(fl.Body).(*ast.BlockStmt)
		return &ast.ExprStmt{X: r.rt("Go", fl)}
	}
	if id, ok := c.Fun.(*ast.Ident); ok && r.isBuiltin(id) {
		r.failf(n, "go statement on builtin")
		return n
	}
	var pre []ast.Stmt
	var fun ast.Expr
	if fl, ok := c.Fun.(*ast.FuncLit); ok {
		fl.Body = r.stmt(fl.Body).(*ast.BlockStmt)
		fun = &ast.ParenExpr{X: fl}
	} else {
		f := r.tmp("f")
		pre = append(pre, define(exprs(f), r.expr(c.Fun)))
		fun = f
	}
	if len(c.Args) == 1 {
		if tv, ok := r.info.Types[c.Args[0]]; ok {
			if _, isTuple := tv.Type.(*types.Tuple); isTuple {
				r.failf(n, "go f(g()) with multi-value g is not supported")
				return n
			}
		}
	}
	args := make([]ast.Expr, len(c.Args))
	for i, a := range c.Args {
		tv := r.info.Types[a]
		if tv.Value != nil || tv.IsNil() {
			args[i] = a
			continue
		}
		v := r.tmp("a")
		pre = append(pre, define(exprs(v), r.expr(a)))
		args[i] = v
	}
	inner := &ast.CallExpr{Fun: fun, Args: args, Ellipsis: c.Ellipsis}
	if c.Ellipsis != token.NoPos {
		inner.Ellipsis = 1
	}
	lit := &ast.FuncLit{Type: &ast.FuncType{Params: &ast.FieldList{}}, Body: block(&ast.ExprStmt{X: inner})}
	pre = append(pre, &ast.ExprStmt{X: r.rt("Go", lit)})
	return block(pre...)
}

// ---- range ----

func (r *rewriter) rangeStmt(n *ast.RangeStmt) ast.Stmt {
	n.Body = r.preemptible(r.stmt(n.Body).(*ast.BlockStmt))
	t := r.info.TypeOf(n.X)
	if t == nil {
		n.X = r.expr(n.X)
		return n
	}
	isBlank := func(e ast.Expr) bool {
		if e == nil {
			return true
		}
		id, ok := e.(*ast.Ident)
		return ok && id.Name == "_"
	}
	switch t.Underlying().(type) {
	case *types.Chan:
		r.site(n, "range-chan")
		ch := r.tmp("c")
		ok := r.tmp("k")
		var head ast.Stmt
		recv := r.rt("RangeNext", ch)
		var key ast.Expr = ast.NewIdent("_")
		if !isBlank(n.Key) {
			key = n.Key
		}
		var pre []ast.Stmt
		pre = append(pre, define(exprs(ch), r.expr(n.X)))
		if n.Tok == token.ASSIGN && !isBlank(n.Key) {
			pre = append(pre, &ast.DeclStmt{Decl: &ast.GenDecl{Tok: token.VAR, Specs: []ast.Spec{&ast.ValueSpec{Names: []*ast.Ident{ok}, Type: ast.NewIdent("bool")}}}})
			head = assign(exprs(key, ok), recv)
		} else {
			head = define(exprs(key, ok), recv)
		}
		brk := &ast.IfStmt{Cond: &ast.UnaryExpr{Op: token.NOT, X: ok}, Body: block(&ast.BranchStmt{Tok: token.BREAK})}
		body := append([]ast.Stmt{head, brk}, n.Body.List...)
		loop := &ast.ForStmt{Body: &ast.BlockStmt{List: body, Lbrace: n.Body.Lbrace, Rbrace: n.Body.Rbrace}}
		return block(append(pre, loop)...)
	case *types.Map:
		r.site(n, "range-map")
		m := r.tmp("m")
		k := r.tmp("k")
		ok := r.tmp("o")
		pre := []ast.Stmt{define(exprs(m), r.expr(n.X))}
		var head []ast.Stmt
		keyUse := !isBlank(n.Key)
		valUse := !isBlank(n.Value)
		if n.Tok == token.ASSIGN {
			if keyUse {
				head = append(head, assign(exprs(n.Key), k))
			}
			if valUse {
				pre = append(pre, &ast.DeclStmt{Decl: &ast.GenDecl{Tok: token.VAR, Specs: []ast.Spec{&ast.ValueSpec{Names: []*ast.Ident{ok}, Type: ast.NewIdent("bool")}}}})
				head = append(head, assign(exprs(n.Value, ok), &ast.IndexExpr{X: m, Index: k}))
			} else {
				head = append(head, define(exprs(ast.NewIdent("_"), ok), &ast.IndexExpr{X: m, Index: k}))
			}
		} else {
			if keyUse {
				head = append(head, define(exprs(n.Key), k))
			}
			if valUse {
				head = append(head, define(exprs(n.Value, ok), &ast.IndexExpr{X: m, Index: k}))
			} else {
				head = append(head, define(exprs(ast.NewIdent("_"), ok), &ast.IndexExpr{X: m, Index: k}))
			}
		}
		head = append(head, &ast.IfStmt{Cond: &ast.UnaryExpr{Op: token.NOT, X: ok}, Body: block(&ast.BranchStmt{Tok: token.CONTINUE})})
		body := append(head, n.Body.List...)
		loop := &ast.RangeStmt{Key: ast.NewIdent("_"), Value: k, Tok: token.DEFINE, X: r.rt("OrderedKeys", m),
			Body: &ast.BlockStmt{List: body, Lbrace: n.Body.Lbrace, Rbrace: n.Body.Rbrace}}
		return block(append(pre, loop)...)
	}
	n.X = r.expr(n.X)
	return n
}

// ---- select ----

func (r *rewriter) selectStmt(n *ast.SelectStmt) ast.Stmt {
	r.site(n, "select")
	type cs struct {
		cl     *ast.CommClause
		send   bool
		ch     *ast.Ident
		val    ast.Expr   // send value (temp or constant)
		lhs    []ast.Expr // receive assignment targets
		tok    token.Token
		r0, k0 *ast.Ident
	}
	var cases []*cs
	var def *ast.CommClause
	var pre []ast.Stmt
	for _, c := range n.Body.List {
		cl := c.(*ast.CommClause)
		cl.Body = r.stmtList(cl.Body)
		if cl.Comm == nil {
			def = cl
			continue
		}
		x := &cs{cl: cl}
		switch m := cl.Comm.(type) {
		case *ast.SendStmt:
			x.send = true
			x.ch = r.tmp("c")
			pre = append(pre, define(exprs(x.ch), r.expr(m.Chan)))
			if tv := r.info.Types[m.Value]; tv.Value != nil || tv.IsNil() {
				x.val = m.Value
			} else {
				v := r.tmp("v")
				pre = append(pre, define(exprs(v), r.rt("ZeroOfSend", x.ch)), assign(exprs(v), r.expr(m.Value)))
				x.val = v
			}
		case *ast.ExprStmt:
			u, ok := isRecv(m.X)
			if !ok {
				r.failf(m, "unexpected select comm expression")
				return n
			}
			x.ch = r.tmp("c")
			pre = append(pre, define(exprs(x.ch), r.expr(u.X)))
		case *ast.AssignStmt:
			u, ok := isRecv(m.Rhs[0])
			if !ok {
				r.failf(m, "unexpected select comm assignment")
				return n
			}
			x.ch = r.tmp("c")
			pre = append(pre, define(exprs(x.ch), r.expr(u.X)))
			x.lhs = m.Lhs
			x.tok = m.Tok
			x.r0 = r.tmp("r")
			pre = append(pre, define(exprs(x.r0), r.rt("ZeroOf", x.ch)))
			if len(m.Lhs) == 2 {
				x.k0 = r.tmp("k")
				pre = append(pre, define(exprs(x.k0), ast.NewIdent("false")))
			}
		}
		cases = append(cases, x)
	}
	if len(cases) == 0 {
		// select {} or select { default: } — nothing to schedule.
		return n
	}
	hit := r.tmp("hit")
	selv := r.tmp("sel")
	iv := r.tmp("i")
	pre = append(pre, define(exprs(hit), &ast.UnaryExpr{Op: token.SUB, X: intLit(1)}))
	pre = append(pre, define(exprs(selv), r.rt("SelBegin", intLit(len(cases)))))
	// polling loop
	var pollCases []ast.Stmt
	var nativeCases []ast.Stmt
	for i, x := range cases {
		setHit := assign(exprs(hit), intLit(i))
		var body []ast.Stmt
		var comm ast.Stmt
		if x.send {
			body = []ast.Stmt{&ast.IfStmt{Cond: r.rt("PollSend", x.ch, x.val), Body: block(setHit)}}
			comm = &ast.SendStmt{Chan: x.ch, Value: x.val}
		} else {
			h := r.tmp("h")
			var l0, l1 ast.Expr = ast.NewIdent("_"), ast.NewIdent("_")
			if x.r0 != nil {
				l0 = x.r0
			}
			if x.k0 != nil {
				l1 = x.k0
			}
			body = []ast.Stmt{
				&ast.DeclStmt{Decl: &ast.GenDecl{Tok: token.VAR, Specs: []ast.Spec{&ast.ValueSpec{Names: []*ast.Ident{h}, Type: ast.NewIdent("bool")}}}},
				assign(exprs(l0, l1, h), r.rt("PollRecv", x.ch)),
				&ast.IfStmt{Cond: h, Body: block(setHit)},
			}
			rx := &ast.UnaryExpr{Op: token.ARROW, X: x.ch}
			switch {
			case x.r0 != nil && x.k0 != nil:
				comm = assign(exprs(x.r0, x.k0), rx)
			case x.r0 != nil:
				comm = assign(exprs(x.r0), rx)
			default:
				comm = &ast.ExprStmt{X: rx}
			}
		}
		pollCases = append(pollCases, &ast.CaseClause{List: exprs(intLit(i)), Body: body})
		nativeCases = append(nativeCases, &ast.CommClause{Comm: comm, Body: []ast.Stmt{assign(exprs(hit), intLit(i))}})
	}
	poll := &ast.ForStmt{
		Init: define(exprs(iv), intLit(0)),
		Cond: &ast.BinaryExpr{X: &ast.BinaryExpr{X: iv, Op: token.LSS, Y: intLit(len(cases))}, Op: token.LAND, Y: &ast.BinaryExpr{X: hit, Op: token.LSS, Y: intLit(0)}},
		Post: &ast.IncDecStmt{X: iv, Tok: token.INC},
		Body: block(&ast.SwitchStmt{Tag: call(&ast.SelectorExpr{X: selv, Sel: ast.NewIdent("At")}, iv), Body: &ast.BlockStmt{List: pollCases}}),
	}
	pre = append(pre, poll)
	if def == nil {
		pre = append(pre, &ast.IfStmt{Cond: &ast.BinaryExpr{X: hit, Op: token.LSS, Y: intLit(0)},
			Body: block(&ast.SelectStmt{Body: &ast.BlockStmt{List: nativeCases}})})
	}
	pre = append(pre, &ast.ExprStmt{X: call(&ast.SelectorExpr{X: selv, Sel: ast.NewIdent("End")})})
	// dispatch
	var disp []ast.Stmt
	for i, x := range cases {
		var body []ast.Stmt
		if x.lhs != nil {
			rhs := exprs(x.r0)
			if x.k0 != nil {
				rhs = append(rhs, x.k0)
			}
			lhs := make([]ast.Expr, len(x.lhs))
			for j := range x.lhs {
				lhs[j] = r.expr(x.lhs[j])
			}
			body = append(body, &ast.AssignStmt{Lhs: lhs, Tok: x.tok, Rhs: rhs})
		}
		body = append(body, x.cl.Body...)
		disp = append(disp, &ast.CaseClause{List: exprs(intLit(i)), Body: body})
	}
	if def != nil {
		disp = append(disp, &ast.CaseClause{Body: def.Body})
	} else {
		// keeps the statement "terminating" when every case returns
		disp = append(disp, &ast.CaseClause{Body: []ast.Stmt{&ast.ExprStmt{X: call(ast.NewIdent("panic"), &ast.BasicLit{Kind: token.STRING, Value: `"simrt: select dispatch"`})}}})
	}
	pre = append(pre, &ast.SwitchStmt{Tag: hit, Body: &ast.BlockStmt{List: disp}})
	return block(pre...)
}

// ---- file driver ----

func (r *rewriter) run() {
	f := r.file
	for _, d := range f.Decls {
		switch n := d.(type) {
		case *ast.FuncDecl:
			r.fieldTypes(n.Type)
			if n.Recv != nil {
				for _, fl := range n.Recv.List {
					fl.Type = r.expr(fl.Type)
				}
			}
			if n.Body != nil {
				if r.skipMain && n.Name.Name == "main" && n.Recv == nil {
					continue
				}
				n.Body = r.stmt(n.Body).(*ast.BlockStmt)
				if n.Name.Name != "init" {
					n.Body = r.preemptible(n.Body)
				}
			}
		case *ast.GenDecl:
			if n.Tok == token.IMPORT {
				continue
			}
			r.genDecl(n)
		}
	}
	// struct field / interface / other type expressions inside type decls
	for _, d := range f.Decls {
		if gd, ok := d.(*ast.GenDecl); ok && gd.Tok == token.TYPE {
			for _, sp := range gd.Specs {
				ts := sp.(*ast.TypeSpec)
				ts.Type = r.expr(ts.Type)
			}
		}
	}
	// import "sync" -> simsync (keeps the local name "sync")
	for _, im := range f.Imports {
		p, _ := strconv.Unquote(im.Path.Value)
		if p == "sync" {
			if im.Name == nil {
				im.Name = ast.NewIdent("sync")
			}
			im.Path.Value = strconv.Quote(rtPath + "/simsync")
			r.site(im, "import-sync")
		}
	}
	for _, p := range []string{"simrt", "simnet", "simos"} {
		if r.need[p] {
			astutil.AddImport(r.fset, f, rtPath+"/"+p)
		}
	}
	// drop imports that became unused
	for _, im := range append([]*ast.ImportSpec{}, f.Imports...) {
		p, _ := strconv.Unquote(im.Path.Value)
		if im.Name != nil && (im.Name.Name == "_" || im.Name.Name == ".") {
			continue
		}
		if !usesImport(f, im) {
			name := ""
			if im.Name != nil {
				name = im.Name.Name
			}
			astutil.DeleteNamedImport(r.fset, f, name, p)
		}
	}
}

func usesImport(f *ast.File, im *ast.ImportSpec) bool {
	p, _ := strconv.Unquote(im.Path.Value)
	name := ""
	if im.Name != nil {
		name = im.Name.Name
	} else {
		name = guessName(p)
	}
	used := false
	ast.Inspect(f, func(n ast.Node) bool {
		if s, ok := n.(*ast.SelectorExpr); ok {
			if id, ok := s.X.(*ast.Ident); ok && id.Name == name && id.Obj == nil {
				used = true
			}
		}
		return !used
	})
	return used
}

var pkgNames = map[string]string{}

func guessName(p string) string {
	if n, ok := pkgNames[p]; ok {
		return n
	}
	base := p[strings.LastIndex(p, "/")+1:]
	return base
}

func main() {
	dir := flag.String("dir", "", "scratch copy of the repository")
	sitesOut := flag.String("sites", "", "write site table here")
	flag.Parse()
	if *dir == "" {
		fmt.Fprintln(os.Stderr, "usage: instrument -dir <scratch>")
		os.Exit(2)
	}
	cfg := &packages.Config{
		Mode: packages.NeedName | packages.NeedFiles | packages.NeedCompiledGoFiles | packages.NeedSyntax | packages.NeedTypes | packages.NeedTypesInfo | packages.NeedImports | packages.NeedDeps | packages.NeedModule,
		Dir:  *dir,
		Env:  append(os.Environ(), "GOFLAGS=-mod=mod", "GOPROXY=off", "GOSUMDB=off"),
	}
	pkgs, err := packages.Load(cfg, "./...")
	if err != nil {
		fmt.Fprintln(os.Stderr, "instrument: load:", err)
		os.Exit(2)
	}
	bad := false
	packages.Visit(pkgs, nil, func(p *packages.Package) {
		pkgNames[p.PkgPath] = p.Name
		if strings.HasPrefix(p.PkgPath, modPath) {
			for _, e := range p.Errors {
				fmt.Fprintln(os.Stderr, "instrument: package error:", e)
				bad = true
			}
		}
	})
	if bad {
		os.Exit(2)
	}
	var sites []site
	var warns []string
	nfiles := 0
	sort.Slice(pkgs, func(i, j int) bool { return pkgs[i].PkgPath < pkgs[j].PkgPath })
	for _, p := range pkgs {
		if !strings.HasPrefix(p.PkgPath, modPath) || strings.Contains(p.PkgPath, "/verif") {
			continue
		}
		if p.PkgPath == modPath { // tools.go package
			continue
		}
		for i, f := range p.Syntax {
			fname := p.CompiledGoFiles[i]
			if strings.HasSuffix(fname, "_test.go") {
				continue
			}
			rel, _ := filepath.Rel(*dir, fname)
			rw := &rewriter{fset: p.Fset, info: p.TypesInfo, file: f, fname: rel, need: map[string]bool{}, sites: &sites, warns: &warns,
				skipMain: p.Name == "main"}
			rw.run()
			if len(rw.errs) > 0 {
				for _, e := range rw.errs {
					fmt.Fprintln(os.Stderr, "instrument:", e)
				}
				os.Exit(2)
			}
			var buf bytes.Buffer
			pc := printer.Config{Mode: printer.UseSpaces | printer.TabIndent | printer.SourcePos, Tabwidth: 8}
			if os.Getenv("VERIF_NO_SOURCEPOS") != "" {
				pc.Mode &^= printer.SourcePos
			}
			if err := pc.Fprint(&buf, p.Fset, f); err != nil {
				fmt.Fprintln(os.Stderr, "instrument: print:", fname, err)
				os.Exit(2)
			}
			if err := os.WriteFile(fname, buf.Bytes(), 0o644); err != nil {
				fmt.Fprintln(os.Stderr, "instrument:", err)
				os.Exit(2)
			}
			nfiles++
		}
	}
	// Process-lifetime state. A worker process executes many runs; what the code
	// under test keeps in package-level variables (lazily built tables, sync.Once,
	// caches, flags "already done") would otherwise survive from one run into the
	// next, and "first use in a process" would happen once per worker. Each
	// package gets a file whose init function - the last of the package, by file
	// name - notes the value of every package-level variable after the package's
	// own initialisation, and registers a function that puts those values back;
	// the harness calls it before every run. (A variable that starts out holding
	// a non-nil map, slice or pointer keeps pointing to the same object: contents
	// mutated in place are not restored.)
	for _, p := range pkgs {
		if !strings.HasPrefix(p.PkgPath, modPath) || strings.Contains(p.PkgPath, "/verif") || p.PkgPath == modPath {
			continue
		}
		var names []string
		dir := ""
		for i, f := range p.Syntax {
			fname := p.CompiledGoFiles[i]
			if strings.HasSuffix(fname, "_test.go") {
				continue
			}
			dir = filepath.Dir(fname)
			for _, d := range f.Decls {
				gd, ok := d.(*ast.GenDecl)
				if !ok || gd.Tok != token.VAR {
					continue
				}
				for _, sp := range gd.Specs {
					for _, n := range sp.(*ast.ValueSpec).Names {
						if n.Name != "_" {
							names = append(names, n.Name)
						}
					}
				}
			}
		}
		if dir == "" || len(names) == 0 {
			continue
		}
		sort.Strings(names)
		var b bytes.Buffer
		fmt.Fprintf(&b, "package %s\n\nimport \"github.com/Jigsaw-Code/outline-ss-server/verifrt/simrt\"\n\nfunc init() {\n\tvar restore []func()\n", p.Name)
		for _, n := range names {
			fmt.Fprintf(&b, "\t{\n\t\tv := %s\n\t\trestore = append(restore, func() { %s = v })\n\t}\n", n, n)
		}
		fmt.Fprintf(&b, "\tsimrt.RegisterReinit(func() {\n\t\tfor _, f := range restore {\n\t\t\tf()\n\t\t}\n\t})\n}\n")
		if err := os.WriteFile(filepath.Join(dir, "zz_verif_reinit.go"), b.Bytes(), 0o644); err != nil {
			fmt.Fprintln(os.Stderr, "instrument:", err)
			os.Exit(2)
		}
	}
	if *sitesOut != "" {
		b, _ := json.MarshalIndent(map[string]any{"sites": sites, "warnings": warns}, "", " ")
		os.WriteFile(*sitesOut, b, 0o644)
	}
	for _, w := range warns {
		fmt.Fprintln(os.Stderr, "instrument: warning:", w)
	}
	fmt.Printf("instrumented %d files, %d sites\n", nfiles, len(sites))
}
