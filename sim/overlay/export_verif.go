package verifmain

// Export shim for the verification harness (copied next to the instrumented
// copy of cmd/outline-ss-server, which is renamed to package verifmain in the
// scratch tree only). Nothing here exists in /repo.

func NewServerMetricsForVerif() *serverMetrics { return newPrometheusServerMetrics() }

func (s *OutlineServer) LoadConfigForVerif(filename string) error { return s.loadConfig(filename) }

func (s *OutlineServer) StopForVerif() error { return s.Stop() }
