package verifmain
