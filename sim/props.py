# Per-property check configuration: scenarios, run counts per tier, evidence text.
COMMON_STUB = ["TCP/UDP stack, addresses and bind conflicts (simnet model of Linux semantics)", "sync primitives (simsync: scheduler-aware, same semantics and race edges)",
               "goroutine scheduling, select choice, map iteration order (simrt, drawn from the schedule tape)", "wall clock and connection deadlines (simrt virtual clock)"]
COMMON_ASSUME = ["simnet/simsync/simrt are a faithful model of the Linux socket API, Go's sync package and any legal Go schedule (trusted base)",
                 "instrumentation (go statements, channel ops, select, map ranges, sync import, net/os/time API names) preserves behaviour: every behaviour of the rewritten program is a legal behaviour of the original",
                 "a clean batch is evidence, not proof: schedules and faults are sampled, not enumerated"]

PROPS = {
    "C13": dict(
        level_text="Seeded exploration of interleavings (sticky, uniform and PCT scheduling) of concurrent ListenStream/ListenPacket/Close calls on the real listener manager inside the deterministic simulator; a deadlock is detected exactly (quiescence with unfinished calls plus the wait-for cycle over simulated locks), then the manager is exercised again. Sampling, not proof; a two-lock inversion needs one preemption and is hit in ~10% of runs.",
        scenarios=[dict(name="c13", quick=20000, thorough=2000000, quick_budget_s=120, thorough_budget_s=1500)],
        rule="each run: 2-6 tasks issue 1-5 ListenStream/ListenPacket/Close calls each on 1-3 addresses of one real ListenerManager (some handles pre-acquired) under a drawn scheduling policy (sticky/uniform/PCT); non-trivial = some task closes a handle on an address another task listens on; distinct = distinct (event-log hash, schedule fingerprint) among non-trivial runs",
        real=["service.listenerManager, multiStreamListener, multiPacketListener, virtualStreamListener, virtualPacketConn (instrumented, not stubbed)"],
        stub=COMMON_STUB, assumptions=COMMON_ASSUME),
    "C12": dict(
        scenarios=[dict(name="c12s", quick=15000, thorough=1500000, quick_budget_s=120, thorough_budget_s=1200),
                   dict(name="c12p", quick=15000, thorough=1500000, quick_budget_s=120, thorough_budget_s=1200)],
        level_text="Seeded exploration of interleavings of acquire/accept/read/close calls and incoming connections/datagrams over 1-4 handles of one shared address on the real listener manager; exactly-once, closed-handle semantics, bounded liveness (at quiescence nothing that arrived may be undelivered while a handle keeps accepting) and full release after the last close are checked against the simulator's ground-truth ledger. Sampling, not proof.",
        rule="each run: 1-4 handles on one address (stream scenario c12s / packet scenario c12p), acceptor/reader task per handle, closer tasks with drawn positions, 0-7 connections or datagrams from harness clients, one handle optionally kept open to the end; select choices and goroutine order drawn from the schedule tape; non-trivial = a handle kept accepting to the end of the concurrent phase (loss oracle armed) or a rare probe fired; distinct = distinct (event-log hash, schedule fingerprint)",
        real=["service.listenerManager, multiStreamListener (shared accept loop), multiPacketListener (shared read loop), virtualStreamListener, virtualPacketConn"],
        stub=COMMON_STUB, assumptions=COMMON_ASSUME),
    "C02": dict(
        scenarios=[dict(name="c02", quick=1500, thorough=150000, quick_budget_s=150, thorough_budget_s=1800)],
        level_text="Seeded exploration: 1-3 concurrent authenticated connections through the real StreamServe/StreamHandler/relay code to scripted targets over the simulated TCP stack; byte-exact equality of both streams and end-of-stream ordering are checked against the ground-truth ledger, with short reads, tiny windows and scheduler interleavings as legal perturbations and client RST as a fault with a prefix-only oracle. Sampling, not proof.",
        rule="each run: 1-6 keys, 1-3 connections; per connection key, address type (IPv4/IPv6/domain), 0-4 messages per direction with sizes from {1..200000} around the 16383 chunk limit, address alone or coalesced with first data, termination order A (client speaks+half-closes first), B (target first), C (concurrent), D (client never half-closes); faults: short reads, 1..4096-byte windows, client RST mid-stream; non-trivial = a connection ran to completion and was compared byte for byte; distinct = distinct (event-log hash, schedule fingerprint)",
        real=["service.StreamServe, streamHandler, findAccessKey, proxyConnection relay, metrics.measuredConn, cipherList, ReplayCache; outline-sdk shadowsocks Reader/Writer on both sides; go-shadowsocks2 socks"],
        stub=COMMON_STUB + ["DNS resolver (scripted)"], assumptions=COMMON_ASSUME),
    "C01": dict(
        scenarios=[dict(name="c01", quick=1500, thorough=150000, quick_budget_s=150, thorough_budget_s=1800)],
        level_text="Seeded exploration: 1-8 client connections (valid under configured / unconfigured / outsider keys, random bytes) from several client IPs race with up to three CipherList.Update calls on the real authenticator and handler; an interval oracle over the key-list versions current during each handshake decides must-authenticate / must-reject / either, attribution must name an id configured with exactly that cipher and secret, and rejected connections must cause no dial and no byte written back (ground-truth ledger). Sampling, not proof.",
        rule="each run: universe of 1-40 keys (thorough: up to 300; mixed ciphers, duplicate (cipher,secret) pairs, shared secrets), 1-4 key-list versions (random subsets, random order) installed by concurrent updater tasks, 1-8 connections from 4 client IPs with segmentation and short reads; non-trivial = at least one must-authenticate or must-reject verdict was decided; distinct = distinct (event-log hash, schedule fingerprint)",
        real=["service.NewShadowsocksStreamAuthenticator, findAccessKey/findEntry trial decryption, cipherList (Snapshot/MarkUsed/Update), StreamHandler, StreamServe, ReplayCache; outline-sdk shadowsocks on both sides"],
        stub=COMMON_STUB, assumptions=COMMON_ASSUME),
    "C06": dict(
        scenarios=[dict(name="c06", quick=2500, thorough=250000, quick_budget_s=150, thorough_budget_s=1800)],
        level_text="Seeded exploration with a virtual clock: 1-4 probe connections (random bytes of 0..50000 bytes, valid streams truncated or bit-flipped at every offset class, bad address headers, corrupted later chunks, replays) against the real handler with a drawn handshake timeout (50 ms .. 59 s); the ground-truth ledger of the simulated socket gives bytes written back, bytes consumed, FIN/RST and the exact virtual instant of the server's close, compared with the deadline (plus injected clock skew) or the client's FIN. Sampling, not proof.",
        rule="each run: 1-8 keys, replay cache on/off, timeout T in {50ms,1s,7s,59s}, 1-4 probes; per probe a content class (random length, truncation offset, bit-flip offset class, bad address type, later-chunk corruption, replay) and a client behaviour (idle, FIN at k/10 of T, trickle then idle); clock-tick injection in half of the runs; non-trivial = at least one probe verdict decided; distinct = distinct (event-log hash, schedule fingerprint)",
        real=["service.streamHandler (handleConnection, absorbProbe, proxyConnection), authenticator, ReplayCache, StreamServe; outline-sdk shadowsocks"],
        stub=COMMON_STUB, assumptions=COMMON_ASSUME + ["RST is modelled as in Linux: closing a socket with unread inbound data resets the peer"]),
    "C03": dict(
        scenarios=[dict(name="c03", quick=3000, thorough=300000, quick_budget_s=150, thorough_budget_s=1800)],
        level_text="Seeded exploration: 1-6 (thorough: up to 12) UDP clients send valid / unconfigured-key / wrong-key / random / truncated / bad-address / disallowed-destination datagrams through the real PacketHandler over the simulated UDP stack with loss, duplication and reordering; a reference model walks the datagrams in the order the proxy socket actually read them and every datagram the proxy emitted (ground-truth ledger) is matched, decrypted and compared: forwarded-only-if-authenticated, payload and destination intact, replies under the association key with the true source address and fresh salts. Sampling, not proof.",
        rule="each run: 1-8 universe keys (random subset configured), 1-3 targets (IPv4/IPv6) that answer 0-2 times (sizes 0..65487, sometimes from a third address), 1-6 clients x 1-6 datagrams of the kinds above with payloads 0..65000; faults: loss/dup/delay-reorder on every hop; non-trivial = at least one association in the reference model; distinct = distinct (event-log hash, schedule fingerprint)",
        real=["service.packetHandler.Handle, findAccessKeyUDP, validatePacket, natmap, natconn, timedCopy; cipherList; shared packet listener; outline-sdk shadowsocks Pack/Unpack on both sides; socks address codec"],
        stub=COMMON_STUB, assumptions=COMMON_ASSUME),
    "C04": dict(
        scenarios=[dict(name="c04", quick=3000, thorough=300000, quick_budget_s=150, thorough_budget_s=1800)],
        level_text="Same run shape as C03, association oracles: per client address one stable outbound source socket, never shared between client addresses, every datagram arriving at that source address (from the contacted target or from a third party) relayed to exactly that client, and the number of outbound sockets equal to the number of authenticated first datagrams with an allowed destination in the reference model. Sampling, not proof.",
        rule="as C03 (clients sharing an IP with different ports, different IPs, different keys, same key; several targets; replies from strangers); non-trivial = at least one association; distinct = distinct (event-log hash, schedule fingerprint)",
        real=["service.packetHandler.Handle, natmap (Get/Add/del), natconn, timedCopy; shared packet listener"],
        stub=COMMON_STUB, assumptions=COMMON_ASSUME + ["associations do not expire inside a run of this scenario (5 min timeout, no port-53 traffic); expiry is C14's scenario"]),
    "C16": dict(
        scenarios=[dict(name="c16", quick=3000, thorough=300000, quick_budget_s=150, thorough_budget_s=1800)],
        level_text="Same run shape as C03 with a recording wrapper around the real Prometheus collectors: every AddUDPNatEntry / AddPacketFromClient / AddPacketFromTarget / RemoveNatEntry call is compared, call by call and in order, with the reference model's verdict for the datagram it belongs to and with sizes taken from the ground-truth ledger; after the run the real registry is gathered and udp_nat_entries_added/removed and data_bytes{proto=udp} per key and direction must equal the sums. Sampling, not proof.",
        rule="as C03 (valid, wrong-key on live association, rejected destinations, bad address headers, replies of all sizes from several senders); loss/dup/reorder apply outside the proxy so equalities stay exact; non-trivial = at least one association; distinct = distinct (event-log hash, schedule fingerprint)",
        real=["service.packetHandler, natmap, timedCopy; prometheus.serviceMetrics/udpServiceMetrics/proxyCollector (real client_golang counters, gathered through a real Registry after the run)"],
        stub=COMMON_STUB, assumptions=COMMON_ASSUME),
}
