#!/usr/bin/env python3
"""Regenerate MANIFEST.json from sim/props.py (claimed checks) and properties.jsonl."""
import json, os, sys
V = os.path.dirname(os.path.dirname(os.path.abspath(__file__)))
sys.path.insert(0, os.path.join(V, "sim"))
from props import PROPS
props = [json.loads(l) for l in open(os.path.join(V, "properties.jsonl"))]
checks = []
na = []
for p in props:
    pid = p["id"]
    P = PROPS.get(pid)
    if not P or P.get("disabled"):
        na.append(dict(property_id=pid, reason=(P or {}).get("na_reason", "check under construction in this session; not yet registered")))
        continue
    checks.append(dict(
        property_id=pid,
        quick_cmd="./check %s --tier quick" % pid,
        thorough_cmd="./check %s --tier thorough" % pid,
        evidence_file="/verif/evidence/%s.json" % pid,
        replay_cmd_template="./check %s --replay {path}" % pid,
        engine="detsim",
        level_claimed=dict(category=P.get("level", "exploration"), text=P["level_text"], design_ref=P.get("design_ref", "DESIGN.md section 3, " + pid)),
        level_note=P.get("level_note", "Trusted base: simnet (TCP/UDP model), simsync, simrt scheduler/clock, the source instrumenter; schedules and faults are sampled from seeded tapes, not enumerated."),
        technique=P.get("technique", "deterministic simulation with fault injection: seeded search over schedules and faults on the instrumented real code, oracle over the recorded history"),
    ))
m = dict(
    version=1,
    setup_cmd="cd /verif/sim/cmd/instrument && GOFLAGS=-mod=mod GOPROXY=off GOSUMDB=off GOTOOLCHAIN=local go build -o /verif/bin/instrument . && cd /verif && ./check --warm",
    hooks=dict(guard="verif", enable="no hooks in /repo: every check copies /repo's working tree to a scratch directory and instruments the copy (sim/cmd/instrument); /repo itself is never modified by the machinery",
               baseline_off_cmd="cd /repo && go test -vet=off -count=1 ./...", source_commits=[], add_only=True),
    engines=[dict(name="detsim", path="/verif/sim", serves_properties=[c["property_id"] for c in checks],
                  kind_free_text="deterministic simulator: AST instrumenter + cooperative scheduler in a testing/synctest bubble + virtual clock + simulated TCP/UDP/OS + seeded choice tapes with shrinking and replay")],
    checks=checks,
    not_applicable=na,
    notes="See DESIGN.md. ./check <ID> --tier quick|thorough; VERIF_SEED selects the seed. known_findings.json lists genuine defects recorded or fixed.",
)
json.dump(m, open(os.path.join(V, "MANIFEST.json"), "w"), indent=1)
print("checks:", [c["property_id"] for c in checks], "n/a:", len(na))
