#!/bin/bash
# usage: tools/mut.sh '<python snippet editing files under cwd>' PROP [PROP...]  -- runs checks against a patched scratch copy of /repo
set -e
M=$(mktemp -d /tmp/mut.XXXX)
rsync -a --exclude .git /repo/ $M/
( cd $M && python3 -c "$1" && go build ./... ) || { echo "MUTANT DOES NOT BUILD"; rm -rf $M; exit 3; }
shift
for p in "$@"; do
  ( cd /verif && VERIF_REPO=$M VERIF_REPLAY_DIR=/tmp/mutreplays VERIF_EVIDENCE_DIR=/tmp/mutevidence VERIF_SCALE=${SCALE:-0.5} VERIF_MAX_REPORT=4 ./check $p 2>&1 | grep -v "^  minimised\|^      task" | cut -c1-330 | tail -${TAIL:-7} ) || true
done
rm -rf $M
