#!/usr/bin/env python3
"""Regenerates seeded/RESULTS.md from the meta.json files under seeded/."""
import json, os, re
root = '/verif/seeded'
rows = []
for d in sorted(os.listdir(root)):
    mp = os.path.join(root, d, 'meta.json')
    if not os.path.exists(mp):
        continue
    m = json.load(open(mp))
    c = m.get('confirmed_by_me', {})
    esc = lambda s: str(s).replace('|', '\\|').replace('\n', ' ')
    if d.startswith('refactor-'):
        rows.append((d, '(control)', 'behaviour-preserving refactoring written by an independent sub-agent', '-', c.get('verdict', ''), 'all 20', esc(c.get('note', ''))))
    else:
        rows.append((d, m.get('property', ''), esc(m.get('summary', ''))[:150], esc(m.get('needs_to_manifest', ''))[:150], c.get('verdict', ''), ','.join(c.get('checks_run', [])), esc(c.get('note', ''))[:260]))
n_once = sum(1 for r in rows if r[4] == 'caught')
n_after = sum(1 for r in rows if r[4] == 'caught-after-strengthening')
n_ctl = sum(1 for r in rows if r[1] == '(control)')
n_other = sum(1 for r in rows if r[4].startswith('caught-by-'))
out = []
out.append('# Seeded property-breaking changes and controls\n')
out.append("Written by independent sub-agents that were given only the text of one property and their own scratch worktree of /repo (nothing from /verif). Each directory holds `patch.diff`, the agent's demonstration (a test that fails with the change and passes without it) and `meta.json`. All were confirmed with `tools/seeded.sh` (fresh scratch worktree of /repo HEAD, patch applies, builds, the 93 stable tests pass with the patch) and run against the checks with `VERIF_REPO=<patched worktree>`; /repo itself was never modified. `tools/seeded_all.sh` re-runs every entry against its checks (regression after harness changes); `tools/mkresults.py` writes this file.\n")
out.append("Verdicts: **caught** = reported by the quick tier as it was when the change arrived; **caught-after-strengthening** = missed (or caught only by another property's check, or at a very low rate) at first, the scenario named in the note was extended, and the quick tier reports it now. Every entry is currently caught (those marked caught-by-C19-only by the race build, not by the functional oracle of their own property). The `refactor-*` controls raise no alarm in any of the 20 checks.\n")
out.append('| id | property | change | needs | verdict | checks | note |')
out.append('|---|---|---|---|---|---|---|')
for r in rows:
    out.append('| ' + ' | '.join(r) + ' |')
out.append('')
out.append('Totals: %d caught at once, %d caught after strengthening, %d caught only by the race-detector build of C19 (the property\'s own functional oracle cannot: no preemption inside a computation), %d controls without alarm.' % (n_once, n_after, n_other, n_ctl))
open(os.path.join(root, 'RESULTS.md'), 'w').write('\n'.join(out) + '\n')
print('rows', len(rows), n_once, n_after, n_ctl)
