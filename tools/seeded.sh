#!/bin/bash
# usage: tools/seeded.sh <dir with patch.diff (+demo)> [--verify-only] PROP [PROP...]
# Confirms a seeded property-breaking change in a fresh scratch worktree of /repo
# (build, stable tests pass) and runs the named checks against the patched tree.
export GOFLAGS=-mod=mod GOPROXY=off GOSUMDB=off
D=$1; shift
W=$(mktemp -d /tmp/sv.XXXX); rmdir $W
# meta.json may name the commit the change was written against ("base"), for
# changes that a later fix: commit made moot on the current tree
BASE=$(python3 -c "import json,sys; print(json.load(open('$D/meta.json')).get('base','HEAD'))" 2>/dev/null || echo HEAD)
git -C /repo worktree add -q --detach $W $BASE || exit 3
[ "$BASE" != "HEAD" ] && echo "(base $BASE)"
cleanup() { git -C /repo worktree remove --force $W 2>/dev/null; rm -rf $W; }
trap cleanup EXIT
( cd $W && git apply $D/patch.diff ) || { echo "PATCH DOES NOT APPLY"; exit 3; }
( cd $W && go build ./... ) || { echo "PATCHED TREE DOES NOT BUILD"; exit 3; }
( cd $W && go test -json -vet=off -count=1 ./... 2>/dev/null > $W/.bl.json; python3 - $W/.bl.json <<'PY'
import json,sys
base=json.load(open('/root/.vp/BASELINE.json'))
res={}
for l in open(sys.argv[1]):
    try: e=json.loads(l)
    except: continue
    if e.get('Test') and e.get('Action') in ('pass','fail','skip'):
        res[e['Package']+'::'+e['Test']]=e['Action']
bad=[t for t in base['stable_pass'] if res.get(t)!='pass']
print('SUITE with patch: %d/%d stable tests pass%s' % (len(base['stable_pass'])-len(bad), len(base['stable_pass']), (' FAILING: %s' % bad) if bad else ''))
PY
rm -f $W/.bl.json )
if [ "$1" == "--verify-only" ]; then exit 0; fi
for p in "$@"; do
  ( cd /verif && VERIF_REPO=$W VERIF_REPLAY_DIR=/tmp/mutreplays/$(basename $W) VERIF_EVIDENCE_DIR=/tmp/mutevidence/$(basename $W) VERIF_SCALE=${SCALE:-1} VERIF_MAX_REPORT=3 VERIF_WORKERS=${WORKERS:-8} ./check $p 2>&1 | grep "^VIOLATION\|^  signature:\|^KNOWN-FINDING\|^check:\|^C[0-9][0-9] \(quick\|thorough\):" | cut -c1-400 )
done
