#!/bin/bash
# Re-run every kept seeded change against the checks recorded in its meta.json; prints one line per change.
# PAR changes run at a time (default 4), each with WORKERS simulation workers (default 4).
cd /verif
one() {
  d=seeded/$1/
  id=$1
  checks=$(python3 -c "import json;print(' '.join(json.load(open('$d/meta.json'))['confirmed_by_me']['checks_run']))")
  out=$(WORKERS=${WORKERS:-4} SCALE=${SCALE:-1} tools/seeded.sh /verif/$d $checks 2>&1)
  n=$(echo "$out" | grep -c "^VIOLATION")
  suite=$(echo "$out" | grep -o "SUITE with patch: [0-9/]* stable tests pass")
  sigs=$(echo "$out" | grep "signature:" | sed 's/ *signature: //' | cut -c1-70 | tr '\n' ';')
  echo "$id [$checks] violations=$n $suite :: $sigs"
}
export -f one
ls seeded | grep -v RESULTS.md | grep "${ONLY:-.}" | xargs -P ${PAR:-4} -I{} bash -c 'one {}'
