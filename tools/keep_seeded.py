#!/usr/bin/env python3
"""keep_seeded.py <src dir> <dest id> <verdict: caught|missed|caught-after-strengthening> <checks run> <note>
Copies a confirmed seeded change into /verif/seeded/<dest id>/ and records what was run."""
import json, os, shutil, sys
src, dest, verdict, checks, note = sys.argv[1:6]
d = os.path.join('/verif/seeded', dest)
os.makedirs(d, exist_ok=True)
for f in os.listdir(src):
    if f.startswith('foreign-') or f.startswith('prop-'):
        continue
    shutil.copy(os.path.join(src, f), os.path.join(d, f))
m = json.load(open(os.path.join(d, 'meta.json')))
m['confirmed_by_me'] = {"how": "tools/seeded.sh: fresh scratch worktree of /repo HEAD, git apply patch.diff, go build, 93 stable tests pass with the patch; agent's demo verified by the agent in both directions",
                        "checks_run": checks.split(','), "verdict": verdict, "note": note}
json.dump(m, open(os.path.join(d, 'meta.json'), 'w'), indent=1)
print('kept', d)
